// C12 — LE <-> SE conversion preserves geometry and skinning and yields a valid file.
#include "skinmodel.hpp"
#include "sources.hpp"

namespace {
using namespace vf;

float halfRT(float x) { return (float)half_float::half(x); }

struct ShapeGeo {
	std::string name, type, parent, shaderType;
	std::vector<Vector3> verts;
	std::vector<Vector2> uvs;
	std::vector<Color4> colors;
	bool hasColors = false, hasUVs = false;
	std::multiset<std::tuple<int, int, int>> tris;
	std::vector<std::string> bones;
	std::vector<std::map<std::string, float>> weights;   // per vertex: bone name -> weight
	std::set<uint16_t> usedVerts;
	uint32_t shaderKind = 0;
	bool skinned = false;
	bool skinDataWithoutWeights = false;   // SSE: weights only live in the BSTriShape vertex data
	std::string attachments;               // what else hangs on the shape: collision object (type, target) and controller chain (types)
};

ShapeGeo capture(NifFile& nif, NiShape* s) {
	ShapeGeo g;
	g.name = s->name.get();
	g.type = s->GetBlockName();
	auto p = nif.GetParentNode(s);
	g.parent = p ? p->name.get() : "<none>";
	nif.GetVertsForShape(s, g.verts);
	g.hasUVs = nif.GetUvsForShape(s, g.uvs);
	g.hasColors = nif.GetColorsForShape(s, g.colors);
	std::vector<Triangle> t;
	s->GetTriangles(t);
	for (auto x : t) { g.usedVerts.insert(x.p1); g.usedVerts.insert(x.p2); g.usedVerts.insert(x.p3); x = normTri(x); g.tris.insert({x.p1, x.p2, x.p3}); }
	nif.GetShapeBoneList(s, g.bones);
	g.skinned = s->IsSkinned() && !g.bones.empty();
	g.weights.resize(g.verts.size());
	for (uint32_t b = 0; b < g.bones.size(); b++) {
		std::unordered_map<uint16_t, float> w;
		nif.GetShapeBoneWeights(s, b, w);
		for (auto& kv : w)
			if (kv.first < g.weights.size()) g.weights[kv.first][g.bones[b]] += kv.second;
	}
	if (auto sh = nif.GetShader(s)) { g.shaderType = sh->GetBlockName(); g.shaderKind = sh->GetShaderType(); }
	{
		auto& hdr = nif.GetHeader();
		g.attachments = "collision=";
		if (auto co = hdr.GetBlock(s->collisionRef)) {
			g.attachments += co->GetBlockName();
			g.attachments += hdr.GetBlock<NiAVObject>(co->targetRef) == s ? "(targets the shape)" : "(targets something else)";
		}
		else g.attachments += s->collisionRef.IsEmpty() ? "none" : "dangling";
		g.attachments += " controllers=";
		int guard = 0;
		for (auto c = hdr.GetBlock(s->controllerRef); c && guard < 64; c = hdr.GetBlock(c->nextControllerRef), guard++) g.attachments += std::string(c->GetBlockName()) + ",";
	}
	if (s->HasType<BSTriShape>())
		if (auto si = nif.GetHeader().GetBlock<NiSkinInstance>(s->SkinInstanceRef()))
			if (auto sd = nif.GetHeader().GetBlock(si->dataRef)) {
				bool any = false;
				for (auto& b : sd->bones) if (!b.vertexWeights.empty()) any = true;
				g.skinDataWithoutWeights = !any;
			}
	return g;
}

// expected weights of one vertex after conversion: the four largest, normalised
std::map<std::string, float> top4(const std::map<std::string, float>& w) {
	std::vector<std::pair<float, std::string>> l;
	for (auto& kv : w) l.push_back({kv.second, kv.first});
	std::sort(l.rbegin(), l.rend());
	if (l.size() > 4) l.resize(4);
	float sum = 0;
	for (auto& p : l) sum += p.first;
	std::map<std::string, float> o;
	for (auto& p : l) o[p.second] = sum > 0 ? p.first / sum : 0;
	return o;
}
bool tiesAtCut(const std::map<std::string, float>& w) {
	std::vector<float> l;
	for (auto& kv : w) l.push_back(kv.second);
	std::sort(l.rbegin(), l.rend());
	return l.size() > 4 && std::fabs(l[3] - l[4]) < 1e-4f;
}

// compares converted geometry `b` with the reference `a`; stage names the point of comparison
bool compareGeo(const ShapeGeo& a, const ShapeGeo& b, const std::string& what, const std::string& dir, const char* stage, bool uvHalf, bool parallaxOrColorRemovalAllowed) {
	R_eval();
	std::string st = dir + "/" + stage;
	auto V = [&](const std::string& cls, const std::string& d) { R_viol("conversion", st + "/" + cls, what + " shape '" + a.name + "' [" + stage + "]: " + d); return false; };
	if (a.verts.size() != b.verts.size()) return V("vertex-count", fmt("%zu vertices before, %zu after", a.verts.size(), b.verts.size()));
	for (size_t i = 0; i < a.verts.size(); i++)
		if (memcmp(&a.verts[i], &b.verts[i], 12) != 0) return V("positions", fmt("vertex %zu (%g,%g,%g) became (%g,%g,%g)", i, a.verts[i].x, a.verts[i].y, a.verts[i].z, b.verts[i].x, b.verts[i].y, b.verts[i].z));
	if (a.tris != b.tris) return V("triangle-set", fmt("%zu triangles before, %zu after (as sets of rotation-normalised triangles they differ)", a.tris.size(), b.tris.size()));
	if (a.hasUVs) {
		if (!b.hasUVs || b.uvs.size() != a.uvs.size()) return V("uvs-lost", "texture coordinates missing after conversion");
		for (size_t i = 0; i < a.uvs.size(); i++) {
			float tu = uvHalf ? std::fabs(a.uvs[i].u - halfRT(a.uvs[i].u)) + 1e-6f : 0.0f, tv = uvHalf ? std::fabs(a.uvs[i].v - halfRT(a.uvs[i].v)) + 1e-6f : 0.0f;
			if (std::fabs(a.uvs[i].u - b.uvs[i].u) > tu || std::fabs(a.uvs[i].v - b.uvs[i].v) > tv) return V("uvs", fmt("uv %zu (%g,%g) became (%g,%g)", i, a.uvs[i].u, a.uvs[i].v, b.uvs[i].u, b.uvs[i].v));
		}
	}
	const bool clampColors = true;   // every comparison of this monitor has a byte-storage (SE) side
	if (a.hasColors && !a.colors.empty()) {
		bool allWhite = true;
		for (auto& c : a.colors) if (!(c.r == 1 && c.g == 1 && c.b == 1 && c.a == 1)) allWhite = false;
		if (!b.hasColors || b.colors.size() != a.colors.size()) { if (!(allWhite && parallaxOrColorRemovalAllowed)) return V("colors-lost", "vertex colours missing after conversion although they are not all white"); }
		else
			for (size_t i = 0; i < a.colors.size(); i++) {
				// byte storage (SE) clamps to [0,1]; float storage (LE) keeps what it is given
				auto cl = [&](float x) { return clampColors ? std::min(1.0f, std::max(0.0f, x)) : x; };
				float d = std::max({std::fabs(cl(a.colors[i].r) - cl(b.colors[i].r)), std::fabs(cl(a.colors[i].g) - cl(b.colors[i].g)), std::fabs(cl(a.colors[i].b) - cl(b.colors[i].b)), std::fabs(cl(a.colors[i].a) - cl(b.colors[i].a))});
				if (d > 1.0f / 255.0f + 1e-5f) return V("colors", fmt("colour %zu off by %g", i, d));
			}
	}
	if (a.bones != b.bones) return V("bone-list", fmt("%zu bones before, %zu after (or different order/names)", a.bones.size(), b.bones.size()));
	if (a.skinned) {
		for (size_t v = 0; v < a.weights.size() && v < b.weights.size(); v++) {
			if (tiesAtCut(a.weights[v])) continue;   // which of two equal weights survives the top-4 cut is not defined
			auto got = b.weights[v];
			float gs = 0;
			for (auto& kv : got) gs += kv.second;
			// the target either keeps every influence (NiSkinData) or the normalised four largest (BSTriShape vertex data)
			auto differs = [&](const std::map<std::string, float>& w) {
				for (auto& kv : w) {
					float g = got.count(kv.first) ? got.at(kv.first) / (gs > 0 ? gs : 1) : 0;
					if (std::fabs(g - kv.second) > 2e-3f) return true;
				}
				for (auto& kv : got)
					if (!w.count(kv.first) && kv.second / (gs > 0 ? gs : 1) > 2e-3f) return true;
				return false;
			};
			auto want = top4(a.weights[v]);
			std::map<std::string, float> full = a.weights[v];
			float fs = 0;
			for (auto& kv : full) fs += kv.second;
			for (auto& kv : full) kv.second = fs > 0 ? kv.second / fs : 0;
			bool bad = differs(want) && differs(full);
			if (bad) {
				std::string ws, gs2;
				for (auto& kv : want) ws += fmt("%s=%.4f ", kv.first.c_str(), kv.second);
				for (auto& kv : got) gs2 += fmt("%s=%.4f ", kv.first.c_str(), kv.second);
				bool unreferenced = !a.usedVerts.count((uint16_t)v);
				return V(a.skinDataWithoutWeights ? "weights-only-in-vertex-data" : unreferenced ? "weights-of-vertex-without-triangle" : "weights", fmt("vertex %zu expected {%s} got {%s}", v, ws.c_str(), gs2.c_str()));
			}
		}
	}
	if (a.parent != b.parent) return V("parent-node", "parent node '" + a.parent + "' became '" + b.parent + "'");
	if (a.shaderType != b.shaderType) return V("shader-block", "shader " + a.shaderType + " became " + b.shaderType);
	if (a.attachments != b.attachments) return V("attachments", "the shape had {" + a.attachments + "}, after the conversion it has {" + b.attachments + "}");
	return true;
}

std::map<std::string, ShapeGeo> captureAll(NifFile& n, bool& dupNames) {
	std::map<std::string, ShapeGeo> m;
	dupNames = false;
	for (auto s : n.GetShapes()) {
		ShapeGeo g = capture(n, s);
		if (!m.emplace(g.name, g).second) dupNames = true;
	}
	return m;
}

// oriented triangles a shape is known to consist of from an independent source (the triangle list it had before it was rewritten as strips)
static std::map<std::string, std::multiset<std::tuple<int, int, int>>> g_truthTris;

void convertCheck(const std::string& bytes, const std::string& src, uint64_t seed, int optVariant) {
	Rng rng(seed);
	NifFile ref;
	if (loadNif(ref, bytes) != 0) return;
	auto& v0 = ref.GetHeader().GetVersion();
	bool fromLE = v0.IsSK();
	if (!fromLE && !v0.IsSSE()) return;
	std::string dir = fromLE ? "LE->SE" : "SE->LE";
	bool dup0 = false;
	auto refGeo = captureAll(ref, dup0);
	if (refGeo.empty()) return;
	for (auto& kv : g_truthTris) {
		auto it = refGeo.find(kv.first);
		if (it == refGeo.end()) continue;
		if (it->second.tris != kv.second) {
			std::string d;
			for (auto& t : kv.second) if (!it->second.tris.count(t)) { d += fmt(" missing (%d,%d,%d)", std::get<0>(t), std::get<1>(t), std::get<2>(t)); break; }
			for (auto& t : it->second.tris) if (!kv.second.count(t)) { d += fmt(" extra (%d,%d,%d)", std::get<0>(t), std::get<1>(t), std::get<2>(t)); break; }
			R_viol("conversion", "strips-decoding", src + " shape '" + kv.first + fmt("': the triangles read from the NiTriStrips shape (%zu) are not the oriented triangles its strips encode (%zu);", it->second.tris.size(), kv.second.size()) + d);
			return;
		}
		it->second.tris = kv.second;
	}
	OptOptions o;
	o.targetVersion = fromLE ? NiVersion::getSSE() : NiVersion::getSK();
	o.removeParallax = optVariant & 1;
	o.calcBounds = optVariant & 2;
	o.fixBSXFlags = !(optVariant & 4);
	o.fixShaderFlags = !(optVariant & 8);
	bool anyDynamic = false;
	for (auto s : ref.GetShapes()) if (s->HasType<BSDynamicTriShape>()) anyDynamic = true;
	// head-part formats are for skinned head meshes only ("use ONLY for head parts")
	o.headParts = (optVariant & 16) && (anyDynamic || fromLE) && ref.GetShapes().size() == 1 && !ref.GetShapes()[0]->HasType<BSSegmentedTriShape>() && refGeo.begin()->second.skinned;
	std::string what = src + fmt(" %s opts{parallax=%d bounds=%d bsx=%d flags=%d head=%d}", dir.c_str(), o.removeParallax, o.calcBounds, o.fixBSXFlags, o.fixShaderFlags, o.headParts);
	R_caseDesc(what);
	NifFile a;
	if (seed % 3 == 1) { Rng hr(seed ^ 0x0B7); what += " {object " + useObject(a, hr) + "}"; R_caseDesc(what); }   // the converted object has held another model before
	loadNif(a, bytes);
	R_phase("OptimizeFor");
	OptResult res = a.OptimizeFor(o);
	if (res.versionMismatch) { R_viol("conversion", dir + "/version-mismatch", what + ": OptimizeFor refuses an " + std::string(fromLE ? "LE" : "SE") + " model"); return; }
	bool dup1 = false;
	auto conv = captureAll(a, dup1);
	// sibling shapes have distinct names
	for (auto n : a.GetNodes()) {
		std::set<std::string> names;
		for (auto& c : n->childRefs)
			if (auto s = a.GetHeader().GetBlock<NiShape>(c))
				if (!s->name.get().empty() && !names.insert(s->name.get()).second) { R_viol("conversion", dir + "/duplicate-sibling-names", what + ": two shapes below '" + n->name.get() + "' are both called '" + s->name.get() + "'"); return; }
	}
	if (conv.size() != refGeo.size() && !dup0) { R_viol("conversion", dir + "/shape-count", what + fmt(": %zu shapes before, %zu after", refGeo.size(), conv.size())); return; }
	if (dup0) { R_stat("models_with_duplicate_names_only_checked_for_renaming"); return; }
	for (auto& kv : refGeo) {
		auto it = conv.find(kv.first);
		if (it == conv.end()) { R_viol("conversion", dir + "/shape-missing", what + ": shape '" + kv.first + "' is missing after the conversion"); return; }
		if (!compareGeo(kv.second, it->second, what, dir, "converted", false, o.removeParallax)) return;
		bool wantBS = fromLE;
		if ((it->second.type.find("BS") == 0 && (it->second.type.find("TriShape") != std::string::npos) && it->second.type != "BSLODTriShape" && it->second.type != "BSSegmentedTriShape") != wantBS && kv.second.type != "BSLODTriShape")
			R_stat("shape_kept_its_block_type");
	}
	// save, reload in the target version, partition invariants
	R_phase("save+reload");
	std::string out = saveNif(a, false);
	NifFile b;
	if (loadNif(b, out) != 0) { R_viol("conversion", dir + "/reload", what + ": converted model does not reload"); return; }
	auto& v1 = b.GetHeader().GetVersion();
	if (fromLE ? !v1.IsSSE() : !v1.IsSK()) { R_viol("conversion", dir + "/target-version", what + ": reloaded file is not in the target version (" + v1.GetVersionInfo() + ")"); return; }
	bool dup2 = false;
	auto re = captureAll(b, dup2);
	for (auto& kv : refGeo) {
		auto it = re.find(kv.first);
		if (it == re.end()) { R_viol("conversion", dir + "/shape-missing-after-reload", what + ": shape '" + kv.first + "' is missing after save+reload"); return; }
		if (!compareGeo(kv.second, it->second, what, dir, "converted+reloaded", fromLE, o.removeParallax)) return;
	}
	for (auto s : b.GetShapes())
		if (auto si = b.GetHeader().GetBlock<NiSkinInstance>(s->SkinInstanceRef()))
			if (b.GetHeader().GetBlock(si->skinPartitionRef) && b.GetHeader().GetBlock(si->dataRef)) {
				auto errs = checkPartitions(b, s, true, nullptr, true, true);
				if (!errs.empty()) { R_viol("conversion", dir + "/partition/" + invClass(errs[0]), what + " shape '" + s->name.get() + "' after conversion+reload: " + errs[0]); return; }
				R_stat("converted_skinned_shapes_partition_checked");
			}
	// there and back
	R_phase("convert-back");
	OptOptions o2 = o;
	o2.targetVersion = fromLE ? NiVersion::getSK() : NiVersion::getSSE();
	o2.headParts = false;
	OptResult r2 = b.OptimizeFor(o2);
	if (r2.versionMismatch) { R_viol("conversion", dir + "/back/version-mismatch", what + ": converting back is refused"); return; }
	std::string out2 = saveNif(b, false);
	NifFile c;
	if (loadNif(c, out2) != 0) { R_viol("conversion", dir + "/back/reload", what + ": model converted back does not reload"); return; }
	bool dup3 = false;
	auto back = captureAll(c, dup3);
	for (auto& kv : refGeo) {
		auto it = back.find(kv.first);
		if (it == back.end()) { R_viol("conversion", dir + "/back/shape-missing", what + ": shape '" + kv.first + "' is missing after converting back"); return; }
		ShapeGeo want = kv.second;
		want.shaderType = it->second.shaderType;   // shader block kinds are compared one way only
		if (!compareGeo(want, it->second, what, dir, "there-and-back", true, true)) return;
	}
	R_stat("models_converted");
	R_cover(what);
}

struct Plan { size_t api; int optsPerReal; };
Plan plan() { return g_cfg.tier ? Plan{9000, 32} : Plan{800, 6}; }

void run(size_t idx) {
	Plan p = plan();
	size_t nReal = realSamples().size() * (size_t)p.optsPerReal;
	if (idx < nReal) {
		auto& s = realSamples()[idx / (size_t)p.optsPerReal];
		int ov = (int)(idx % (size_t)p.optsPerReal);
		static const int OV[] = {1 | 2, 0, 1, 2, 1 | 2 | 16, 1 | 2 | 4 | 8};
		convertCheck(s.bytes, "real:" + s.name, mix(g_cfg.seed, idx), ov < 6 ? OV[ov] : ov);
		if (idx == 0) R_sample(fmt("{\"source\":\"real\",\"file\":\"%s\"}", s.name.c_str()));
		return;
	}
	idx -= nReal;
	{
		uint64_t seed = mix(g_cfg.seed, 0xC12A00 + idx);
		Rng rng(seed);
		ApiOpts ao;
		ao.version = idx % 2 ? "SSE" : "SK";
		ao.skinned = (idx / 2) % 4 == 3 ? 0 : 1;   // (by idx / 2: both versions get unskinned models)
		ao.colors = idx % 3 == 0;
		ao.wideColors = idx % 6 == 0;
		ao.partitions = idx % 5 == 0;
		ao.maxInfluences = 1 + (int)(idx % 6);
		// an SSE file carries the weights twice (NiSkinData and BSTriShape vertex data): keep the two views consistent (<= 4 influences)
		if (idx % 2) ao.maxInfluences = std::min(ao.maxInfluences, 4);
		ao.extras = idx % 2 == 0;
		ao.modelSpace = idx % 8 == 5 || idx % 8 == 2;
		ao.collisionVolumes = idx % 5 == 2;   // shapes that carry their own collision object
		bool unreferencedVerts = idx % 16 == 15;   // labelled stress dimension: vertices that no triangle uses
		ao.everyVertexUsed = !unreferencedVerts;
		if (idx % 10 == 6) {
			// more bones in one partition than SE allows (80): the conversion has to split partitions
			ao.skinned = 1;
			ao.shapes = 1;
			ao.bones = 85 + (int)rng.below(70);
			ao.nv = 150 + (int)rng.below(150);
			ao.nt = 40 + (int)rng.below(120);
			ao.maxInfluences = std::max(ao.maxInfluences, 2);
			R_stat("models_with_more_than_80_bones");
		}
		ApiModel m = buildApiModel(seed, (int)idx, &ao);
		if (!m.ok) return;
		if (idx % 7 == 0 && m.nif->GetShapes().size() > 1) {   // sibling name clash
			auto shapes = m.nif->GetShapes();
			shapes[1]->name.get() = shapes[0]->name.get();
			NifFile cp(*m.nif);
			m.bytes = saveNif(cp, false);
		}
		if (idx % 6 == 2) {
			// faces the stored partitions do not know about: a face added after the partitions were built, and / or a second copy of
			// an existing face (rotated); the LE file keeps the full triangle list in NiTriShapeData
			bool changed = false;
			for (auto s : m.nif->GetShapes()) {
				if (!s->IsSkinned() || s->GetNumVertices() < 4) continue;
				std::vector<Triangle> t;
				s->GetTriangles(t);
				if (t.empty() || t.size() > 60000) continue;
				if (rng.coin()) { Triangle d = t[0]; d.rot(); t.push_back(Triangle(d.p2, d.p3, d.p1)); }
				if (rng.coin()) {
					uint16_t nv = s->GetNumVertices();
					uint16_t a = (uint16_t)rng.below(nv), b = (uint16_t)((a + 1 + rng.below(nv - 1)) % nv), c = a;
					while (c == a || c == b) c = (uint16_t)rng.below(nv);
					t.push_back(Triangle(a, b, c));
				}
				s->SetTriangles(t);
				changed = true;
			}
			if (changed) {
				NifFile cp(*m.nif);
				m.bytes = saveNif(cp, false);
				m.desc += " [faces outside the stored partitions]";
			}
		}
		if (idx % 4 == 1 || idx % 8 == 6) {
			// partition vertex maps in arbitrary order, as files written by other tools have them
			if (permutePartitionVertexMaps(*m.nif, rng) > 0) {
				NifFile cp(*m.nif);
				m.bytes = saveNif(cp, false);
				m.desc += " [partition vertex maps permuted]";
				R_stat("models_with_permuted_partition_vertex_maps");
			}
		}
		g_truthTris.clear();
		if (idx % 8 == 4 && idx % 6 != 2 && idx % 7 != 0) {   // (not together with the duplicated faces or the name clash above: the truth is kept per shape name)
			// SK: geometry stored as triangle strips that encode the same oriented triangles (some with a leading degenerate)
			bool any = false;
			for (auto s : m.nif->GetShapes()) {
				if (!s->HasType<NiTriShape>() || s->HasType<NiTriStrips>()) continue;
				std::vector<Triangle> t;
				s->GetTriangles(t);
				if (t.empty()) continue;
				std::string name = s->name.get();
				if (toStripsSameTriangles(*m.nif, s, rng)) {
					auto& ts = g_truthTris[name];
					for (auto x : t) { x = normTri(x); ts.insert({x.p1, x.p2, x.p3}); }
					any = true;
				}
			}
			if (any) {
				NifFile cp(*m.nif);
				m.bytes = saveNif(cp, false);
				m.desc += " [geometry as strips]";
				R_stat("models_with_strip_geometry");
			}
		}
		if (idx % 2 == 0 && (idx / 2) % 5 == 2 && idx % 7 != 0) {
			// LE: a line shape (NiLines: vertices, no triangles) stored behind the triangle shapes
			NifFile cp;
			Rng lr(mix(seed, 0x11E5));
			if (loadNif(cp, m.bytes) == 0 && addLinesShape(cp, "wire_lines", lr)) {
				m.bytes = saveNif(cp, true);
				m.desc += " [+NiLines shape behind the triangle shapes]";
				R_stat("models_with_a_line_shape");
			}
		}
		if (idx % 9 == 4) {   // all-white vertex colours
			for (auto s : m.nif->GetShapes()) { std::vector<Color4> c(s->GetNumVertices(), Color4(1, 1, 1, 1)); m.nif->SetColorsForShape(s, c); }
			NifFile cp(*m.nif);
			m.bytes = saveNif(cp, false);
		}
		if (idx % 2 == 0 && ao.skinned == 0 && idx % 10 != 6) {
			// an LE file as other tools write it: a geometry data block stored in front of the root node (the root is the first NiNode, not
			// block 0); the conversion orphans that data block, and nothing but its position protects an unskinned model's root from pruning
			NifFile cp;
			if (loadNif(cp, m.bytes) == 0) {
				auto& hdr = cp.GetHeader();
				uint32_t n = hdr.GetNumBlocks(), d = NIF_NPOS;
				for (uint32_t i = 1; i < n && d == NIF_NPOS; i++)
					if (hdr.GetBlock<NiTriBasedGeomData>(i)) d = i;
				if (d != NIF_NPOS) {
					std::vector<uint32_t> order(n);
					for (uint32_t i = 0; i < n; i++) order[i] = i < d ? i + 1 : i == d ? 0 : i;
					hdr.SetBlockOrder(order);
					m.bytes = saveNif(cp, true);
					m.desc += " [geometry data stored in front of the root node]";
					R_stat("models_with_the_root_not_first");
				}
			}
		}
		convertCheck(m.bytes, std::string("api:") + (unreferencedVerts ? "[unreferenced-vertices] " : "") + m.desc, seed, (int)(idx % 16) | (idx % 11 == 0 ? 16 : 0));
		if (idx < 2) R_sample(fmt("{\"source\":\"api\",\"model\":\"%s\"}", jesc(m.desc).c_str()));
	}
}

MonReg reg({"C12", "exploration",
			"models: the real LE/SE samples x option combinations, API-built SK and SSE models (1-3 shapes, 3..300 vertices, skinned with 1..120 bones and 1..6 influences or unskinned, "
			"vertex colours random / all white / none, random partitions, extra data, sibling name clashes, more than 80 bones in one partition, faces the stored partitions do not list, model-space-normal shaders, shapes that carry their own collision object, unskinned LE files whose first block is a geometry data block (root node second), an extra NiLines shape (no triangles) behind the triangle shapes, converted object used before; one case in 16 with vertices no triangle uses as a labelled stress dimension) x "
			"option combinations (removeParallax, calcBounds, fixBSXFlags, fixShaderFlags, headParts for single dynamic-capable shapes). Oracle per shape matched by name: positions "
			"bit-exact, triangle multisets equal, UVs within half-float rounding, colours within 1/255 (all-white may be dropped), bone list equal, per-vertex weights equal to the normalised "
			"four largest within 2e-3 (ties at the cut skipped), parent node, shader block, collision object (type, still targeting the shape) and controller chain kept, sibling names distinct; converted file reloads in the target version and satisfies the "
			"C10 partition invariants; converting back returns equivalent geometry. Non-trivial = model that passed conversion, reload, and back-conversion.",
			[] { Plan p = plan(); return realSamples().size() * (size_t)p.optsPerReal + p.api; }, run, 8, 300.0, false, false, nullptr});
} // namespace
