// C18 — index-remapping and strip utilities agree with their mathematical definition.
// Bounded-exhaustive + random comparison of the NifUtil.hpp templates with naive reference models,
// executed under ASan/UBSan/_GLIBCXX_ASSERTIONS (out-of-container access aborts).
#include "common.hpp"

namespace {
using namespace vf;

template<typename T> const char* tname();
template<> const char* tname<uint16_t>() { return "u16"; }
template<> const char* tname<uint32_t>() { return "u32"; }
template<> const char* tname<int>() { return "int"; }
template<> const char* tname<size_t>() { return "size_t"; }

template<typename I> std::vector<I> maskToList(uint32_t mask, int bits) {
	std::vector<I> l;
	for (int b = 0; b < bits; b++)
		if (mask & (1u << b)) l.push_back((I)b);
	return l;
}

template<typename I> std::string listStr(const std::vector<I>& l) {
	std::string s = "[";
	for (size_t i = 0; i < l.size(); i++) s += (i ? "," : "") + std::to_string((long long)l[i]);
	return s + "]";
}

// ---- reference models
template<typename E, typename I> std::vector<E> refErase(const std::vector<E>& v, const std::vector<I>& idx) {
	std::set<size_t> del;
	for (auto i : idx)
		if ((size_t)i < v.size()) del.insert((size_t)i);
	std::vector<E> out;
	for (size_t i = 0; i < v.size(); i++)
		if (!del.count(i)) out.push_back(v[i]);
	return out;
}
template<typename I> std::vector<int> refCollapse(const std::vector<I>& idx, size_t n) {
	std::set<size_t> del;
	for (auto i : idx) del.insert((size_t)i);
	std::vector<int> m(n);
	int d = 0;
	for (size_t i = 0; i < n; i++) m[i] = del.count(i) ? -1 : d++;
	return m;
}
template<typename I> std::vector<int> refExpand(const std::vector<I>& idx, size_t n) {
	// position of the k-th survivor after inserting the (final-position) indices
	std::set<size_t> ins;
	for (auto i : idx) ins.insert((size_t)i);
	std::vector<int> m;
	size_t pos = 0;
	while (m.size() < n) {
		if (!ins.count(pos)) m.push_back((int)pos);
		pos++;
	}
	return m;
}

template<typename E, typename I>
void checkEraseInsert(const std::vector<E>& base, const std::vector<I>& idx, const char* what) {
	R_eval();
	std::string site = std::string("EraseVectorIndices<") + tname<I>() + ">";
	std::vector<E> v = base;
	EraseVectorIndices(v, idx);
	auto ref = refErase(base, idx);
	if (v != ref) {
		R_viol("erase-vs-model", site, fmt("%s n=%zu idx=%s got size %zu want %zu", what, base.size(), listStr(idx).c_str(), v.size(), ref.size()));
		return;
	}
	bool nontrivial = v.size() != base.size() && !v.empty();
	if (nontrivial) R_cover(fmt("erase/%s/%zu/%s", tname<I>(), base.size(), listStr(idx).c_str()));
	// insert back (only defined when every index addresses a position of the restored vector)
	bool allIn = true;
	for (auto i : idx)
		if ((size_t)i >= base.size()) allIn = false;
	if (!allIn) return;
	R_eval();
	std::vector<E> w = v;
	InsertVectorIndices(w, idx);
	std::string isite = std::string("InsertVectorIndices<") + tname<I>() + ">";
	if (w.size() != base.size()) {
		R_viol("insert-size", isite, fmt("%s n=%zu idx=%s size %zu", what, base.size(), listStr(idx).c_str(), w.size()));
		return;
	}
	std::set<size_t> del(idx.begin(), idx.end());
	for (size_t i = 0; i < base.size(); i++)
		if (!del.count(i) && !(w[i] == base[i])) {
			R_viol("insert-restores", isite, fmt("%s n=%zu idx=%s survivor %zu not restored", what, base.size(), listStr(idx).c_str(), i));
			return;
		}
}

template<typename I, typename M> void checkMaps(const std::vector<I>& idx, M mapSize) {
	R_eval();
	auto got = GenerateIndexCollapseMap(idx, mapSize);
	auto ref = refCollapse(idx, (size_t)mapSize);
	std::string site = std::string("GenerateIndexCollapseMap<") + tname<I>() + "," + tname<M>() + ">";
	if (got != ref) R_viol("collapse-vs-model", site, fmt("mapSize=%zu idx=%s", (size_t)mapSize, listStr(idx).c_str()));
	else if (!idx.empty() && mapSize > 0) R_cover(fmt("collapse/%s/%zu/%s", tname<I>(), (size_t)mapSize, listStr(idx).c_str()));
	R_eval();
	auto gote = GenerateIndexExpandMap(idx, mapSize);
	auto refe = refExpand(idx, (size_t)mapSize);
	site = std::string("GenerateIndexExpandMap<") + tname<I>() + "," + tname<M>() + ">";
	if (gote != refe) R_viol("expand-vs-model", site, fmt("mapSize=%zu idx=%s", (size_t)mapSize, listStr(idx).c_str()));
	// collapse o expand = id on survivors (when the index list addresses the expanded range)
	size_t total = (size_t)mapSize + idx.size();
	bool allIn = true;
	for (auto i : idx)
		if ((size_t)i >= total) allIn = false;
	if (allIn) {
		auto col = refCollapse(idx, total);
		for (size_t k = 0; k < gote.size(); k++)
			if ((size_t)gote[k] >= total || col[gote[k]] != (int)k) {
				R_viol("expand-collapse-inverse", site, fmt("mapSize=%zu idx=%s k=%zu", (size_t)mapSize, listStr(idx).c_str(), k));
				break;
			}
	}
}

template<typename MT> void checkApplyMap(const std::vector<Triangle>& tris, const std::vector<MT>& map, const char* mtn) {
	R_eval();
	std::vector<Triangle> got = tris;
	std::vector<int> deleted;
	ApplyMapToTriangles(got, map, &deleted);
	std::vector<Triangle> ref;
	std::vector<int> refDel;
	for (size_t i = 0; i < tris.size(); i++) {
		auto& t = tris[i];
		bool keep = t.p1 < map.size() && t.p2 < map.size() && t.p3 < map.size() && (long long)map[t.p1] >= 0 && (long long)map[t.p2] >= 0 && (long long)map[t.p3] >= 0;
		if (keep) ref.push_back(Triangle((uint16_t)map[t.p1], (uint16_t)map[t.p2], (uint16_t)map[t.p3]));
		else refDel.push_back((int)i);
	}
	bool eq = got.size() == ref.size() && deleted == refDel;
	for (size_t i = 0; eq && i < got.size(); i++) eq = got[i].p1 == ref[i].p1 && got[i].p2 == ref[i].p2 && got[i].p3 == ref[i].p3;
	if (!eq) {
		std::string ts;
		for (auto& t : tris) ts += fmt("(%u,%u,%u)", t.p1, t.p2, t.p3);
		R_viol("applymap-vs-model", std::string("ApplyMapToTriangles<") + mtn + ">", fmt("tris=%s map=%s got %zu want %zu", ts.c_str(), listStr(map).c_str(), got.size(), ref.size()));
	}
	else if (!ref.empty() && !refDel.empty()) {
		std::string ts;
		for (auto& t : tris) ts += fmt("(%u,%u,%u)", t.p1, t.p2, t.p3);
		R_cover("applymap/" + ts + "/" + listStr(map));
	}
}

template<typename I> void checkStrips(const std::vector<std::vector<I>>& strips) {
	R_eval();
	auto got = GenerateTrianglesFromStrips(strips);
	std::vector<Triangle> ref;
	for (auto& s : strips)
		for (size_t i = 2; i < s.size(); i++) {
			uint16_t a = (uint16_t)s[i - 2], b = (uint16_t)s[i - 1], c = (uint16_t)s[i];
			if (a == b || b == c || a == c) continue;
			if (i % 2 == 0) ref.push_back(Triangle(a, b, c));
			else ref.push_back(Triangle(a, c, b));
		}
	bool eq = got.size() == ref.size();
	for (size_t i = 0; eq && i < got.size(); i++) eq = got[i].p1 == ref[i].p1 && got[i].p2 == ref[i].p2 && got[i].p3 == ref[i].p3;
	std::string ss;
	for (auto& s : strips) ss += listStr(s);
	if (!eq) R_viol("strips-vs-model", std::string("GenerateTrianglesFromStrips<") + tname<I>() + ">", fmt("strips=%s got %zu want %zu", ss.c_str(), got.size(), ref.size()));
	else if (ref.size() >= 2) R_cover("strips/" + ss);
}

void checkMapKeys(const std::vector<int>& collapse, const std::vector<int>& keys, int nDeleted) {
	R_eval();
	std::map<int, int> m, ref;
	for (auto k : keys) m[k] = k * 10 + 1;
	for (auto& kv : m) {
		if ((size_t)kv.first >= collapse.size()) ref[kv.first - nDeleted] = kv.second;
		else if (collapse[kv.first] >= 0) ref[collapse[kv.first]] = kv.second;
	}
	std::unordered_map<uint16_t, int> um;
	for (auto k : keys) um[(uint16_t)k] = k * 10 + 1;
	ApplyIndexMapToMapKeys(m, collapse, -nDeleted);
	ApplyIndexMapToMapKeys(um, collapse, -nDeleted);
	std::map<int, int> umSorted(um.begin(), um.end());
	if (m != ref || umSorted != ref) R_viol("mapkeys-vs-model", "ApplyIndexMapToMapKeys", fmt("collapse=%s keys=%s", listStr(collapse).c_str(), listStr(keys).c_str()));
	else if (!ref.empty() && ref.size() != keys.size()) R_cover("mapkeys/" + listStr(collapse) + listStr(keys));
}

// ------------------------------------------------------------------ case enumeration
struct Plan {
	int maxN;          // vector lengths 0..maxN
	int extraBits = 2; // index lists may name up to 2 positions past the end
	int triLen;        // triangle list length for exhaustive ApplyMap
	int stripLen;
	int randomCases;
};
Plan plan() { return g_cfg.tier ? Plan{15, 2, 3, 11, 4000} : Plan{9, 2, 2, 8, 128}; }

enum Group { G_ERASE, G_MAPS, G_APPLY, G_STRIPS, G_KEYS, G_RANDOM };
struct Case { Group g; int a, b; };
std::vector<Case> buildCases() {
	Plan p = plan();
	std::vector<Case> c;
	for (int n = 0; n <= p.maxN; n++)
		for (int t = 0; t < 3; t++) c.push_back({G_ERASE, n, t});
	for (int n = 0; n <= p.maxN; n++)
		for (int t = 0; t < 3; t++) c.push_back({G_MAPS, n, t});
	for (int first = 0; first < 64; first++) c.push_back({G_APPLY, first, 0});
	for (int first = 0; first < 16; first++) c.push_back({G_STRIPS, first, 0});
	for (int n = 0; n <= 6; n++) c.push_back({G_KEYS, n, 0});
	for (int i = 0; i < p.randomCases; i++) c.push_back({G_RANDOM, i, 0});
	return c;
}

template<typename I> void eraseCase(int n) {
	Plan p = plan();
	std::vector<uint32_t> base(n);
	std::vector<std::string> sbase(n);
	for (int i = 0; i < n; i++) { base[i] = 1000u + (uint32_t)i; sbase[i] = "s" + std::to_string(i); }
	int bits = n + p.extraBits;
	for (uint32_t mask = 0; mask < (1u << bits); mask++) {
		auto idx = maskToList<I>(mask, bits);
		checkEraseInsert(base, idx, "u32");
		if ((mask & 3) == 1) checkEraseInsert(sbase, idx, "string");
	}
}
template<typename I> void mapsCase(int n) {
	Plan p = plan();
	int bits = n + p.extraBits;
	for (uint32_t mask = 0; mask < (1u << bits); mask++) {
		auto idx = maskToList<I>(mask, bits);
		checkMaps<I, size_t>(idx, (size_t)n);
		checkMaps<I, uint16_t>(idx, (uint16_t)n);
		checkMaps<I, uint32_t>(idx, (uint32_t)n);
		checkMaps<I, int>(idx, n);
	}
}

void applyCase(int first) {
	Plan p = plan();
	// triangle alphabet over 4 vertices: 64 triangles (degenerate included). Lists of length 1..triLen starting with `first`.
	auto tri = [](int code) { return Triangle((uint16_t)(code & 3), (uint16_t)((code >> 2) & 3), (uint16_t)((code >> 4) & 3)); };
	std::vector<std::vector<int>> maps;
	for (int sz = 0; sz <= 5; sz++)
		for (uint32_t mask = 0; mask < (1u << sz); mask++) maps.push_back(refCollapse(maskToList<int>(mask, sz), (size_t)sz));
	std::vector<std::vector<Triangle>> lists;
	lists.push_back({tri(first)});
	if (first == 0) lists.push_back({});
	for (int c2 = 0; c2 < 64; c2++) {
		lists.push_back({tri(first), tri(c2)});
		if (p.triLen >= 3)
			for (int c3 = 0; c3 < 64; c3 += 5) lists.push_back({tri(first), tri(c2), tri((c3 + c2) & 63)});
	}
	for (auto& l : lists)
		for (auto& m : maps) {
			checkApplyMap<int>(l, m, "int");
			// unsigned maps (vertexMap style): entries are plain positions, never negative
			std::vector<uint16_t> um;
			for (auto x : m) um.push_back((uint16_t)(x < 0 ? 0 : x));
			checkApplyMap<uint16_t>(l, um, "u16");
		}
}

void stripsCase(int first) {
	Plan p = plan();
	// all strips over {0..3} whose first two symbols are given by `first`, length 0..stripLen
	int a = first & 3, b = first >> 2;
	for (int len = 0; len <= p.stripLen; len++) {
		if (len < 2) {
			if (first < 4) {
				std::vector<uint16_t> s;
				for (int i = 0; i < len; i++) s.push_back((uint16_t)first);
				checkStrips<uint16_t>({s});
				checkStrips<uint16_t>({s, {0, 1, 2}, s});
			}
			continue;
		}
		int rest = len - 2;
		for (uint32_t code = 0; code < (1u << (2 * rest)); code++) {
			std::vector<uint16_t> s{(uint16_t)a, (uint16_t)b};
			for (int i = 0; i < rest; i++) s.push_back((uint16_t)((code >> (2 * i)) & 3));
			checkStrips<uint16_t>({s});
			if ((code & 7) == 3) {
				std::vector<uint16_t> s2(s.rbegin(), s.rend());
				checkStrips<uint16_t>({s, s2});
				std::vector<uint32_t> s32(s.begin(), s.end());
				checkStrips<uint32_t>({s32, {}, {1, 2}});
			}
		}
	}
}

void keysCase(int n) {
	for (uint32_t mask = 0; mask < (1u << n); mask++) {
		auto del = maskToList<int>(mask, n);
		auto col = refCollapse(del, (size_t)n);
		int bits = n + 3;
		for (uint32_t km = 0; km < (1u << bits); km++) checkMapKeys(col, maskToList<int>(km, bits), (int)del.size());
	}
}

void randomCase(int i) {
	Rng rng(mix(g_cfg.seed, 0xC18000 + (uint64_t)i));
	// big vectors around the 16-bit limits
	static const size_t sizes[] = {65535, 65534, 40000, 256, 257, 1, 2, 1000};
	size_t n = sizes[i % 8];
	std::vector<uint32_t> base(n);
	for (size_t k = 0; k < n; k++) base[k] = (uint32_t)(k * 7 + 1);
	std::vector<uint16_t> idx;
	int mode = (i / 8) % 4;
	for (size_t k = 0; k < n; k++) {
		bool pick = mode == 0 ? rng.coin(3) : mode == 1 ? (k >= n - std::min<size_t>(n, 5)) : mode == 2 ? (k < 3 || k + 1 == n) : rng.coin(50);
		if (pick) idx.push_back((uint16_t)k);
	}
	if (mode == 3 && rng.coin()) idx.clear();
	R_caseDesc(fmt("random n=%zu mode=%d nidx=%zu", n, mode, idx.size()));
	checkEraseInsert(base, idx, "big-u16");
	std::vector<uint32_t> idx32(idx.begin(), idx.end());
	checkEraseInsert(base, idx32, "big-u32");
	std::vector<int> idxi(idx.begin(), idx.end());
	checkEraseInsert(base, idxi, "big-int");
	checkMaps<uint16_t, size_t>(idx, n);
	checkMaps<uint16_t, uint32_t>(idx, (uint32_t)n);
	// a 16-bit map-size type can only describe maps whose expanded size still fits 16 bits
	if (n + idx.size() <= 65535) checkMaps<uint16_t, uint16_t>(idx, (uint16_t)n);
	// triangles through the collapse map
	auto col = refCollapse(idx, n);
	std::vector<Triangle> tris;
	size_t nt = 1 + rng.below(400);
	for (size_t k = 0; k < nt; k++) tris.push_back(Triangle((uint16_t)rng.below((uint32_t)std::min<size_t>(n + 3, 65536)), (uint16_t)rng.below((uint32_t)n), (uint16_t)rng.below((uint32_t)n)));
	checkApplyMap<int>(tris, col, "int");
	// random strips with 16-bit indices
	std::vector<std::vector<uint16_t>> strips(1 + rng.below(4));
	for (auto& s : strips) {
		size_t l = rng.below(40);
		for (size_t k = 0; k < l; k++) s.push_back((uint16_t)(rng.coin(4) && !s.empty() ? s.back() : rng.below((uint32_t)std::min<size_t>(n, 65535))));
	}
	checkStrips<uint16_t>(strips);
	{
		// the library's own caller of the strip expansion: a skin partition block with 1..5 partitions, each stored as strips or as a
		// triangle list; the container-level conversion expands every strip partition exactly like the naive definition
		NiSkinPartition sp;
		size_t np = 1 + rng.below(5);
		std::vector<std::vector<Triangle>> want(np);
		std::vector<char> hadStrips(np, 0);
		bool any = false;
		for (size_t q = 0; q < np; q++) {
			NiSkinPartition::PartitionBlock pb;
			uint16_t nvp = (uint16_t)(3 + rng.below(30));
			for (uint16_t v = 0; v < nvp; v++) pb.vertexMap.push_back(v);
			pb.numVertices = nvp;
			pb.hasVertexMap = true;
			pb.hasFaces = true;
			if (rng.below(4) != 0) {
				size_t ns = 1 + rng.below(3);
				size_t cnt = 0;
				for (size_t k = 0; k < ns; k++) {
					std::vector<uint16_t> st;
					size_t l = 3 + rng.below(12);
					for (size_t j = 0; j < l; j++) st.push_back((uint16_t)(rng.coin(4) && !st.empty() ? st.back() : rng.below(nvp)));
					pb.stripLengths.push_back((uint16_t)st.size());
					cnt += st.size() - 2;
					for (size_t i = 2; i < st.size(); i++) {
						uint16_t a = st[i - 2], b = st[i - 1], c = st[i];
						if (a == b || b == c || a == c) continue;
						want[q].push_back(i % 2 == 0 ? Triangle(a, b, c) : Triangle(a, c, b));
					}
					pb.strips.push_back(st);
				}
				pb.numStrips = (uint16_t)ns;
				pb.numTriangles = (uint16_t)cnt;
				hadStrips[q] = 1;
				any = true;
			}
			else {
				size_t ntp = rng.below(6);
				for (size_t k = 0; k < ntp; k++) pb.triangles.push_back(Triangle((uint16_t)rng.below(nvp), (uint16_t)rng.below(nvp), (uint16_t)rng.below(nvp)));
				pb.numTriangles = (uint16_t)ntp;
				want[q] = pb.triangles;
			}
			sp.partitions.push_back(pb);
		}
		sp.numPartitions = (uint32_t)np;
		R_eval();
		bool ret = sp.ConvertStripsToTriangles();
		std::string why;
		if (ret != any) why = fmt("returned %d for a block %s strip partitions", (int)ret, any ? "with" : "without");
		for (size_t q = 0; q < np && why.empty(); q++) {
			auto& pb = sp.partitions[q];
			if (pb.numStrips != 0 || !pb.strips.empty() || !pb.stripLengths.empty()) why = fmt("partition %zu of %zu still holds strips", q, np);
			else if (pb.triangles.size() != want[q].size() || pb.numTriangles != want[q].size()) why = fmt("partition %zu of %zu: %zu triangles (counter %u), naive expansion gives %zu", q, np, pb.triangles.size(), pb.numTriangles, want[q].size());
			else
				for (size_t k = 0; k < want[q].size(); k++)
					if (pb.triangles[k].p1 != want[q][k].p1 || pb.triangles[k].p2 != want[q][k].p2 || pb.triangles[k].p3 != want[q][k].p3) { why = fmt("partition %zu of %zu: triangle %zu differs from the naive expansion", q, np, k); break; }
		}
		if (!why.empty()) R_viol("strips-vs-model", "NiSkinPartition::ConvertStripsToTriangles", why);
		else if (any && np > 1) R_cover(fmt("partition-strips/%d", i));
	}
	R_sample(fmt("{\"group\":\"random\",\"n\":%zu,\"mode\":%d,\"deleted\":%zu,\"tris\":%zu}", n, mode, idx.size(), tris.size()));
}

std::vector<Case> g_cases;
void run(size_t idx) {
	const Case& c = g_cases[idx];
	switch (c.g) {
		case G_ERASE:
			R_caseDesc(fmt("erase/insert exhaustive n=%d type=%d", c.a, c.b));
			if (c.b == 0) eraseCase<uint16_t>(c.a);
			else if (c.b == 1) eraseCase<uint32_t>(c.a);
			else eraseCase<int>(c.a);
			if (c.a == 3 && c.b == 0) R_sample("{\"group\":\"erase/insert\",\"n\":3,\"index_lists\":\"all 32 sorted subsets of {0..4} (2 positions past the end)\",\"types\":[\"u16\",\"u32\",\"int\"]}");
			break;
		case G_MAPS:
			R_caseDesc(fmt("collapse/expand exhaustive n=%d type=%d", c.a, c.b));
			if (c.b == 0) mapsCase<uint16_t>(c.a);
			else if (c.b == 1) mapsCase<uint32_t>(c.a);
			else mapsCase<int>(c.a);
			break;
		case G_APPLY: R_caseDesc(fmt("ApplyMapToTriangles exhaustive first-tri=%d", c.a)); applyCase(c.a); break;
		case G_STRIPS:
			R_caseDesc(fmt("strips exhaustive prefix=%d", c.a));
			stripsCase(c.a);
			if (c.a == 1) R_sample("{\"group\":\"strips\",\"alphabet\":\"{0,1,2,3}\",\"prefix\":[1,0],\"lengths\":\"0..max\"}");
			break;
		case G_KEYS: R_caseDesc(fmt("ApplyIndexMapToMapKeys exhaustive n=%d", c.a)); keysCase(c.a); break;
		case G_RANDOM: randomCase(c.a); break;
	}
}

MonReg reg({"C18", "exploration",
			"bounded-exhaustive: every sorted index subset (incl. two positions past the end) of vectors of length 0..N for index types u16/u32/int through "
			"EraseVectorIndices/InsertVectorIndices/GenerateIndexCollapseMap/GenerateIndexExpandMap, all triangle lists over 4 vertices (length<=L) x all collapse maps of size<=5 "
			"through ApplyMapToTriangles, all strips over {0..3} up to length S, ApplyIndexMapToMapKeys for all maps of size<=6; plus seeded random vectors at the 16-bit limits and random skin partition blocks (1..5 partitions, strips or lists) through the container-level strip conversion. "
			"Every result is compared with a naive reference implementation under ASan/UBSan/_GLIBCXX_ASSERTIONS. A case is non-trivial when the operation removes or keeps a "
			"proper non-empty part; distinct = distinct (function, type, input).",
			[] { g_cases = buildCases(); return g_cases.size(); }, run, 8, 120.0, false, false, nullptr});
} // namespace
