// C20 — transform algebra and bounding spheres obey their geometric laws.
#include "common.hpp"
#include "sources.hpp"

namespace {
using namespace vf;

Vector3 randVec(Rng& r, float m) { return Vector3(r.range(-m, m), r.range(-m, m), r.range(-m, m)); }
Vector3 randRotVec(Rng& r, float maxAngle) {
	Vector3 a(r.range(-1, 1), r.range(-1, 1), r.range(-1, 1));
	if (a.length() < 1e-3f) a = Vector3(0, 0, 1);
	a.Normalize();
	return a * r.range(0.0f, maxAngle);
}
MatTransform randXform(Rng& r, float transMag) {
	MatTransform t;
	t.translation = randVec(r, transMag);
	t.rotation = RotVecToMat(randRotVec(r, 3.14159f));
	t.scale = std::exp(r.range(std::log(0.01f), std::log(100.0f)));
	return t;
}
float maxAbs(const Matrix3& m) {
	float x = 0;
	for (int i = 0; i < 3; i++) x = std::max({x, std::fabs(m[i].x), std::fabs(m[i].y), std::fabs(m[i].z)});
	return x;
}
float dist(const Matrix3& a, const Matrix3& b) { return maxAbs(a - b); }
bool finite3(const Vector3& v) { return std::isfinite(v.x) && std::isfinite(v.y) && std::isfinite(v.z); }

void bad(const char* law, const std::string& detail) { R_viol(law, law, detail); }
void badAt(const char* law, const std::string& site, const std::string& detail) { R_viol(law, site, detail); }

void xformLaws(Rng& rng, int variant) {
	float tm = variant % 3 == 0 ? 1e5f : variant % 3 == 1 ? 100.0f : 1.0f;
	MatTransform A = randXform(rng, tm), B = randXform(rng, tm);
	Vector3 v = randVec(rng, variant % 2 ? 1000.0f : 10.0f);
	R_eval();
	// (A o B)(v) == A(B(v))
	{
		Vector3 lhs = A.ComposeTransforms(B).ApplyTransform(v);
		Vector3 rhs = A.ApplyTransform(B.ApplyTransform(v));
		float mag = 1.0f + rhs.length() + A.translation.length() + std::fabs(A.scale) * (B.translation.length() + std::fabs(B.scale) * v.length());
		if (!finite3(lhs) || lhs.DistanceTo(rhs) > 2e-5f * mag)
			bad("compose-apply", fmt("|lhs-rhs|=%g mag=%g scaleA=%g scaleB=%g", lhs.DistanceTo(rhs), mag, A.scale, B.scale));
	}
	// T o T^-1 == I  (applied to points; and as components)
	{
		MatTransform I1 = A.ComposeTransforms(A.InverseTransform());
		MatTransform I2 = A.InverseTransform().ComposeTransforms(A);
		for (const MatTransform* I : {&I1, &I2}) {
			float tr = I->translation.length();
			float tolT = 3e-5f * (1.0f + A.translation.length() * (I == &I2 ? 1.0f / A.scale : 1.0f) + A.translation.length());
			if (dist(I->rotation, Matrix3()) > 2e-5f || std::fabs(I->scale - 1.0f) > 2e-5f || !(tr <= tolT))
				bad("inverse-compose-identity", fmt("rotErr=%g scale=%g |t|=%g tol=%g (scale of A %g, |tA| %g)", dist(I->rotation, Matrix3()), I->scale, tr, tolT, A.scale, A.translation.length()));
		}
		Vector3 back = A.InverseTransform().ApplyTransform(A.ApplyTransform(v));
		float mag = 1.0f + v.length() + A.translation.length() / A.scale;
		if (!finite3(back) || back.DistanceTo(v) > 3e-5f * mag) bad("inverse-apply", fmt("|back-v|=%g mag=%g scale=%g", back.DistanceTo(v), mag, A.scale));
	}
	// ToMatrix consistent with ApplyTransform
	{
		Matrix4 m = A.ToMatrix();
		Vector3 a = m * v, b = A.ApplyTransform(v);
		if (a.DistanceTo(b) > 2e-5f * (1.0f + b.length() + A.translation.length())) bad("tomatrix-apply", fmt("|a-b|=%g", a.DistanceTo(b)));
	}
	R_cover(fmt("xf/%d/%016llx", variant, (unsigned long long)rng.s));
}

void rotLaws(Rng& rng, int variant) {
	R_eval();
	float maxAngle = 3.14159265f - 0.05f;
	Vector3 rv = randRotVec(rng, maxAngle);
	if (variant % 7 == 0) rv = Vector3();                       // zero rotation
	if (variant % 7 == 1) rv = randRotVec(rng, 1e-4f);          // tiny angles
	if (variant % 7 == 2) { rv = randRotVec(rng, 1.0f); rv.Normalize(); rv = rv * maxAngle; }   // close to the half turn limit
	Matrix3 m = RotVecToMat(rv);
	// orthonormal, det +1
	Matrix3 mtm = m * m.Transpose();
	if (dist(mtm, Matrix3()) > 1e-5f || std::fabs(m.Determinant() - 1.0f) > 1e-5f) bad("rotvec-orthonormal", fmt("angle=%g err=%g det=%g", rv.length(), dist(mtm, Matrix3()), m.Determinant()));
	Vector3 back = RotMatToVec(m);
	float tol = 2e-4f + 2e-3f * (rv.length() > 3.0f ? 1.0f : 0.0f);
	if (!finite3(back) || back.DistanceTo(rv) > tol) bad("rotvec-roundtrip", fmt("angle=%g |back-rv|=%g", rv.length(), back.DistanceTo(rv)));
	Matrix3 m2 = RotVecToMat(back);
	if (dist(m, m2) > 2e-5f) bad("rotmat-roundtrip", fmt("angle=%g err=%g", rv.length(), dist(m, m2)));
	// any angle: matrix still orthonormal
	Vector3 big = randRotVec(rng, 12.0f);
	if (variant % 5 == 4) {
		// the band around a half turn, where RotMatToVec switches to its diagonal-based branch
		big = randRotVec(rng, 1.0f);
		if (big.length() < 1e-3f) big = Vector3(0.3f, -0.8f, 0.5f);
		big.Normalize();
		big = big * (3.14159265f + rng.range(-1.5e-3f, 3e-4f));
	}
	Matrix3 mb = RotVecToMat(big);
	if (dist(mb * mb.Transpose(), Matrix3()) > 2e-5f) bad("rotvec-orthonormal", fmt("angle=%g err=%g", big.length(), dist(mb * mb.Transpose(), Matrix3())));
	Vector3 bv = RotMatToVec(mb);
	// conditioning: the axis comes from the antisymmetric part, whose length is 2 sin(angle); one float ulp in the matrix moves it by ~1e-7 / sin(angle)
	double sinEff = 0.5 * std::sqrt(std::pow((double)mb[1][2] - mb[2][1], 2) + std::pow((double)mb[2][0] - mb[0][2], 2) + std::pow((double)mb[0][1] - mb[1][0], 2));
	// and within ~1e-3 of the half turn the diagonal-based branch answers with the angle pi itself and square roots of float residues
	float tolAny = (float)std::min(1e-4 + 6e-7 / std::max(sinEff, 1e-9) + (sinEff < 1.2e-3 ? 1.5e-3 : 0.0), 2.5);
	if (!finite3(bv) || dist(RotVecToMat(bv), mb) > tolAny) bad("rotmat-roundtrip-anyangle", fmt("angle=%g err=%g tol=%g", big.length(), dist(RotVecToMat(bv), mb), tolAny));
	R_cover(fmt("rot/%d/%016llx", variant, (unsigned long long)rng.s));
}

void matrixLaws(Rng& rng, int variant) {
	R_eval();
	// well conditioned 3x3: rotation * diag(scales in [0.2,5]) * rotation
	Matrix3 R1 = RotVecToMat(randRotVec(rng, 3.0f)), R2 = RotVecToMat(randRotVec(rng, 3.0f));
	Matrix3 D(rng.range(0.2f, 5.0f), 0, 0, 0, rng.range(0.2f, 5.0f), 0, 0, 0, rng.range(0.2f, 5.0f) * (variant % 2 ? -1.0f : 1.0f));
	Matrix3 M = R1 * D * R2;
	// a uniform factor does not change the conditioning, only the determinant (k^3): units / world-scale conversions
	float k = variant % 3 == 2 ? std::exp(rng.range(std::log(0.02f), std::log(50.0f))) : 1.0f;
	M = M * k;
	Matrix3 inv;
	bool ok = M.Invert(&inv);
	if (!ok) bad("matrix3-invert", fmt("Invert refused a well-conditioned matrix (singular values within [0.2,5] x %g, det %g)", k, M.Determinant()));
	else {
		if (dist(M * inv, Matrix3()) > 5e-5f || dist(inv * M, Matrix3()) > 5e-5f) bad("matrix3-invert", fmt("M*inv err=%g det=%g", dist(M * inv, Matrix3()), M.Determinant()));
		if (dist(M.Inverse(), inv) > 1e-6f * (1.0f + maxAbs(inv))) bad("matrix3-inverse-vs-invert", "Inverse() != Invert()");
	}
	Matrix3 zero(0, 0, 0, 0, 0, 0, 0, 0, 0);
	Matrix3 keep(1, 2, 3, 4, 5, 6, 7, 8, 9), out = keep;
	if (zero.Invert(&out) || !(out == keep)) bad("matrix3-singular", "Invert of the zero matrix reported success or changed the output");
	if (!(zero.Inverse() == Matrix3())) bad("matrix3-singular", "Inverse of a singular matrix is not the identity");
	// 4x4 built from a transform
	MatTransform T = randXform(rng, 100.0f);
	T.scale = rng.range(0.2f, 5.0f);
	Matrix4 m4 = T.ToMatrix();
	Matrix4 i4 = m4.Inverse();
	Matrix4 p = m4 * i4;
	Matrix4 id;
	float err = 0;
	for (int i = 0; i < 16; i++) err = std::max(err, std::fabs(p[i] - id[i]));
	if (!(err <= 2e-3f)) bad("matrix4-inverse", fmt("max |M*M^-1 - I| = %g (scale %g)", err, T.scale));
	{
		// 4x4 matrices that are not plain transforms: a homogeneous multiple (last row 0 0 0 w), the sum of two transform matrices
		// (w = 2), and a matrix with a projective last row; all well conditioned (moderate translation, determinant away from 0)
		MatTransform S = randXform(rng, 4.0f);
		S.scale = rng.range(0.5f, 2.0f);
		Matrix4 base = S.ToMatrix();
		float wgt = rng.coin() ? rng.range(0.25f, 0.8f) : rng.range(1.25f, 4.0f);
		Matrix4 cand[3];
		cand[0] = base * wgt;
		{
			MatTransform S2 = S;
			S2.translation = randVec(rng, 4.0f);
			cand[1] = base + S2.ToMatrix();   // same rotation and scale, other translation: 2 * (a transform matrix)
		}
		cand[2] = base;
		cand[2][12] = rng.range(-0.05f, 0.05f); cand[2][13] = rng.range(-0.05f, 0.05f); cand[2][14] = rng.range(-0.05f, 0.05f); cand[2][15] = wgt;
		static const char* CN[] = {"homogeneous-multiple", "sum-of-two", "projective-row"};
		for (int q = 0; q < 3; q++) {
			Matrix4 M = cand[q];
			float det = M.Det();
			if (!(std::fabs(det) > 0.02f)) continue;
			Matrix4 inv = M.Inverse();
			Matrix4 pr = M * inv, pl = inv * M;
			float e = 0, ma = 0, mi = 0;
			for (int i = 0; i < 16; i++) { e = std::max({e, std::fabs(pr[i] - id[i]), std::fabs(pl[i] - id[i])}); ma = std::max(ma, std::fabs(M[i])); mi = std::max(mi, std::fabs(inv[i])); }
			if (!(e <= 2e-4f * (1.0f + ma * mi))) bad((std::string("matrix4-inverse/") + CN[q]).c_str(), fmt("max |M*M^-1 - I| = %g, last row (%g %g %g %g), det %g", e, M[12], M[13], M[14], M[15], det));
			// determinant of a homogeneous multiple: det(k M) = k^4 det(M)
			float k = rng.range(0.5f, 2.0f);
			float dk = (M * k).Det(), want = k * k * k * k * det;
			if (!(std::fabs(dk - want) <= 1e-4f * (std::fabs(want) + 1.0f))) bad((std::string("matrix4-det-scaling/") + CN[q]).c_str(), fmt("det(kM)=%g, k^4 det(M)=%g (k=%g)", dk, want, k));
		}
	}
	Vector3 v = randVec(rng, 10.0f);
	Vector3 w = i4 * (m4 * v);
	if (w.DistanceTo(v) > 2e-3f * (1.0f + v.length())) bad("matrix4-inverse-apply", fmt("|w-v|=%g", w.DistanceTo(v)));
	R_cover(fmt("mat/%d/%016llx", variant, (unsigned long long)rng.s));
}

void averageLaws(Rng& rng, int variant) {
	R_eval();
	MatTransform T = randXform(rng, 1000.0f);
	T.rotation = RotVecToMat(randRotVec(rng, 3.0f));
	int n = 1 + (int)rng.below(9);
	std::vector<MatTransform> ts((size_t)n, T);
	for (int which = 0; which < 2; which++) {
		MatTransform a = which ? CalcMedianMatTransform(ts) : CalcAverageMatTransform(ts);
		float tt = a.translation.DistanceTo(T.translation);
		if (dist(a.rotation, T.rotation) > 2e-4f || !(tt <= 1e-3f * (1.0f + T.translation.length())) || std::fabs(a.scale / T.scale - 1.0f) > 1e-4f)
			bad(which ? "median-of-identical" : "average-of-identical", fmt("n=%d rotErr=%g transErr=%g scale %g vs %g", n, dist(a.rotation, T.rotation), tt, a.scale, T.scale));
	}
	std::vector<Matrix3> rots((size_t)n, T.rotation);
	if (dist(CalcAverageRotation(rots), T.rotation) > 2e-4f) bad("average-rotation-identical", fmt("n=%d", n));
	if (dist(CalcMedianRotation(rots), T.rotation) > 2e-4f) bad("median-rotation-identical", fmt("n=%d", n));
	R_cover(fmt("avg/%d/%016llx", variant, (unsigned long long)rng.s));
}

void checkSphere(const std::vector<Vector3>& pts, int kind, float mag, const std::string& origin) {
	BoundingSphere s(pts);
	Vector3 lo = pts[0], hi = pts[0];
	for (auto& p : pts) { lo.x = std::min(lo.x, p.x); lo.y = std::min(lo.y, p.y); lo.z = std::min(lo.z, p.z); hi.x = std::max(hi.x, p.x); hi.y = std::max(hi.y, p.y); hi.z = std::max(hi.z, p.z); }
	float halfDiag = lo.DistanceTo(hi) * 0.5f;
	float coordMag = std::max({std::fabs(lo.x), std::fabs(lo.y), std::fabs(lo.z), std::fabs(hi.x), std::fabs(hi.y), std::fabs(hi.z)});
	float tol = 1e-4f * (s.radius + 1.0f) + 4e-6f * coordMag;
	static const char* KIND[] = {"single", "pair", "collinear", "coplanar", "identical", "two-distinct", "general-with-duplicates", "general-with-duplicates"};
	std::string cls = std::string(KIND[kind]) + (mag > 100.0f ? "/coords-1e4" : "/coords-50");
	auto dump = [&] {
		if (!g_cfg.verbose) return;
		for (auto& p : pts) fprintf(stderr, "%.9g %.9g %.9g\n", p.x, p.y, p.z);
	};
	if (!std::isfinite(s.radius) || !finite3(s.center)) { bad("sphere-finite", fmt("%skind=%d n=%zu radius=%g", origin.c_str(), kind, pts.size(), s.radius)); dump(); return; }
	for (auto& p : pts)
		if (p.DistanceTo(s.center) > s.radius + tol) { badAt("sphere-contains", cls, fmt("%skind=%d n=%zu point outside by %g (radius %g)", origin.c_str(), kind, pts.size(), p.DistanceTo(s.center) - s.radius, s.radius)); dump(); break; }
	if (s.radius > halfDiag + tol) {
		badAt("sphere-minimal", cls, fmt("%skind=%d n=%zu radius %g > half bounding-box diagonal %g (-v prints the points)", origin.c_str(), kind, pts.size(), s.radius, halfDiag));
		dump();
	}
}

void sphereLaws(Rng& rng, int variant) {
	R_eval();
	std::vector<Vector3> pts;
	int kind = variant % 8;
	int n = kind == 0 ? 1 : kind == 1 ? 2 : 3 + (int)rng.below(variant % 16 == 7 ? 5000 : 200);
	float mag = variant % 3 == 0 ? 1e4f : 50.0f;
	Vector3 base = randVec(rng, mag), dir = randVec(rng, 1.0f), dir2 = randVec(rng, 1.0f);
	for (int i = 0; i < n; i++) {
		Vector3 p;
		switch (kind) {
			case 2: p = base + dir * rng.range(-20, 20); break;                              // collinear
			case 3: p = base + dir * rng.range(-20, 20) + dir2 * rng.range(-20, 20); break;  // coplanar
			case 4: p = base; break;                                                          // all identical
			case 5: p = (i % 2) ? base : base + dir; break;                                   // two distinct points, many duplicates
			default: p = base + randVec(rng, 30.0f); break;
		}
		pts.push_back(p);
	}
	if (kind >= 6 && n > 4) for (int i = 0; i < n / 3; i++) pts.push_back(pts[rng.below((uint32_t)pts.size())]);   // duplicates
	checkSphere(pts, kind, mag, "");
	if (kind > 1) R_cover(fmt("sph/%d/%016llx", variant, (unsigned long long)rng.s));
}

// point sets kept under findings/C20 (witnesses of recorded findings): evaluated in every run
void pinnedSpheres() {
	std::ifstream in(g_cfg.verif + "/findings/C20/collinear_1e4_points.txt");
	std::vector<Vector3> pts;
	std::string line;
	while (std::getline(in, line)) {
		if (line.empty() || line[0] == '#') continue;
		Vector3 p;
		if (sscanf(line.c_str(), "%f %f %f", &p.x, &p.y, &p.z) == 3) pts.push_back(p);
	}
	if (pts.empty()) return;
	R_eval();
	checkSphere(pts, 2, 1e4f, "pinned findings/C20/collinear_1e4_points.txt: ");
	R_stat("pinned_point_sets_checked");
}

void shapeBounds(uint64_t seed, int variant) {
	ApiOpts ao;
	ao.skinned = variant % 2;
	ApiModel m = buildApiModel(seed, variant, &ao);
	if (!m.ok) return;
	for (int pass = 0; pass < 2; pass++) {
		NifFile reloaded;
		NifFile* nif = m.nif.get();
		if (pass == 1) { if (loadNif(reloaded, m.bytes) != 0) return; nif = &reloaded; }
		for (auto s : nif->GetShapes()) {
			R_eval();
			std::vector<Vector3> v;
			nif->GetVertsForShape(s, v);
			if (v.empty()) continue;
			s->UpdateBounds();
			BoundingSphere b = s->GetBounds();
			float tol = 1e-4f * (b.radius + 1.0f);
			for (auto& p : v)
				if (p.DistanceTo(b.center) > b.radius + tol) { bad("shape-bounds-contain", fmt("%s %s: vertex outside by %g", m.verName.c_str(), s->GetBlockName(), p.DistanceTo(b.center) - b.radius)); break; }
			// positions edited in place (same count), bounds recomputed: twice, with a query in between (accessors keep copies of the vertices)
			Rng mr(seed ^ 0xB07D5);
			for (int move = 0; move < 2; move++) {
				R_eval();
				Vector3 shift(mr.range(-80, 80), mr.range(-80, 80), mr.range(-80, 80));
				float k = mr.range(0.5f, 3.0f);
				for (auto& p : v) p = p * k + shift;
				nif->SetVertsForShape(s, v);
				s->UpdateBounds();
				BoundingSphere b2 = s->GetBounds();
				std::vector<Vector3> now;
				nif->GetVertsForShape(s, now);
				float tol2 = 1e-4f * (b2.radius + 1.0f) + 2e-3f * (std::fabs(shift.x) + std::fabs(shift.y) + std::fabs(shift.z) + 1.0f);   // half-float positions
				for (auto& p : now)
					if (!(p.DistanceTo(b2.center) <= b2.radius + tol2)) { bad("shape-bounds-contain-after-move", fmt("%s %s: after moving the vertices (move %d) a vertex lies outside the recomputed bounds by %g (radius %g)", m.verName.c_str(), s->GetBlockName(), move, p.DistanceTo(b2.center) - b2.radius, b2.radius)); break; }
				if (move == 0) (void)nif->GetVertsForShape(s);
			}
			R_cover(fmt("shape/%s/%s/%zu/%016llx", m.verName.c_str(), s->GetBlockName(), v.size(), (unsigned long long)seed));
		}
	}
}

struct Plan { size_t each; size_t shapes; };
Plan plan() { return g_cfg.tier ? Plan{2400000, 9000} : Plan{60000, 240}; }
const size_t PER_CASE = 250;

void run(size_t idx) {
	Plan p = plan();
	size_t groups = (p.each + PER_CASE - 1) / PER_CASE;
	size_t g = idx / groups, chunk = idx % groups;
	if (g == 5) {
		size_t per = 6;
		for (size_t k = 0; k < per; k++) shapeBounds(mix(g_cfg.seed, 0xC20500 + chunk * per + k), (int)(chunk * per + k));
		if (chunk == 0) R_sample("{\"group\":\"shape bounds\",\"models\":\"API-built NiTriShape/BSTriShape/BSSubIndexTriShape in 6 versions, as built and reloaded\"}");
		return;
	}
	for (size_t k = 0; k < PER_CASE; k++) {
		size_t n = chunk * PER_CASE + k;
		Rng rng(mix(mix(g_cfg.seed, 0xC20000 + g), n));
		switch (g) {
			case 0: xformLaws(rng, (int)n); break;
			case 1: rotLaws(rng, (int)n); break;
			case 2: matrixLaws(rng, (int)n); break;
			case 3: averageLaws(rng, (int)n); break;
			case 4: sphereLaws(rng, (int)n); break;
		}
	}
	if (chunk == 0 && g == 4) pinnedSpheres();
	if (chunk == 0) {
		static const char* names[] = {"transform compose/inverse/ToMatrix", "rotation vector <-> matrix", "Matrix3/Matrix4 inversion", "average/median of identical transforms", "Miniball bounding spheres"};
		R_sample(fmt("{\"group\":\"%s\",\"cases_per_chunk\":%zu}", names[g], PER_CASE));
	}
}

MonReg reg({"C20", "exploration",
			"seeded random finite, well-conditioned inputs: transforms with rotation of any angle, scale log-uniform in [0.01,100], translations up to 1, 100 and 1e5; rotation vectors "
			"in [0, pi-0.05] (plus zero, tiny, near-limit and >pi angles, and a band of +-1.5e-3 around the half turn with a condition-scaled tolerance); 3x3 matrices with singular values in [0.2,5] times a uniform factor in [0.02,50] and both orientations, singular matrices; point "
			"sets: single, pair, collinear, coplanar, identical, duplicated, up to 5000 points, coordinates up to 1e4; API-built shapes of every geometry class as built and reloaded. "
			"Oracle: algebraic identities with explicit magnitude-scaled float tolerances (composition, inverse, ToMatrix, rotvec<->matrix inverse and orthonormal, M*M^-1=I, averages of n "
			"identical transforms, sphere contains all points and radius <= half bounding-box diagonal, UpdateBounds contains all vertices). Non-trivial = every evaluated random instance.",
			[] { Plan p = plan(); size_t groups = (p.each + PER_CASE - 1) / PER_CASE; return 5 * groups + std::min(groups, (p.shapes + 5) / 6); }, run, 20, 300.0, false, false, nullptr});
} // namespace
