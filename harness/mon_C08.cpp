// C08 — wire format stays compatible with the reference build for all types/versions.
// Program pair: nifmon (current working tree) and reftool (vendored reference snapshot, same harness sources).
// Direction R->C: normal forms written by reftool are loaded here: exact per-block consumption and identical re-encoding.
// Direction C->R: normal forms written here (mode "gen") are checked by reftool the same way; its verdicts are read back.
#include "oracles.hpp"
#include "c08plan.hpp"
#include <dirent.h>

namespace {
using namespace vf;

std::string baseDir() { return g_cfg.verif + "/.cache/c08"; }
std::vector<std::string> g_refFiles;                       // written by the reference build
std::vector<std::array<std::string, 4>> g_refVerdicts;     // reftool's verdicts about files written by the current build

std::vector<std::string> listDir(const std::string& dir) {
	std::vector<std::string> files;
	if (DIR* d = opendir(dir.c_str())) {
		while (auto e = readdir(d)) { std::string s = e->d_name; if (s.size() > 4 && s.substr(s.size() - 4) == ".nif") files.push_back(s); }
		closedir(d);
	}
	std::sort(files.begin(), files.end());
	return files;
}

void init() {
	g_refFiles = listDir(baseDir() + "/R");
	for (int s = 0; s < 64; s++) {
		std::ifstream f(baseDir() + "/verdicts." + std::to_string(s) + ".txt");
		std::string line;
		while (std::getline(f, line)) {
			std::array<std::string, 4> rec;
			size_t p = 0;
			for (int k = 0; k < 4; k++) { size_t q = line.find('\t', p); rec[(size_t)k] = line.substr(p, q == std::string::npos ? std::string::npos : q - p); if (q == std::string::npos) break; p = q + 1; }
			g_refVerdicts.push_back(rec);
		}
	}
	std::sort(g_refVerdicts.begin(), g_refVerdicts.end());
}

std::string typeOfId(const std::string& file) {
	size_t a = file.find('.'), b = file.rfind('.', file.size() - 5);
	return (a == std::string::npos || b == std::string::npos || b <= a) ? file : file.substr(a + 1, b - a - 1);
}

// typed field trace of this build's raw save of `bytes` compared with the trace reftool recorded for the same file
bool traceAgrees(const std::string& dirAndFile, const SaveTrace& tr, const std::string& fn) {
	std::ifstream t(dirAndFile + ".rtrace");
	if (!t) { R_viol("trace-missing", "harness", fn + ": the reference build left no field trace"); return false; }
	std::vector<std::string> ref;
	std::string line;
	while (std::getline(t, line)) ref.push_back(line);
	auto cur = traceLines(tr);
	R_stat("typed_fields_compared", [&] { long n = 0; for (auto& b : tr.blocks) n += b.fields; return n; }());
	if (cur == ref) return true;
	if (cur.size() != ref.size()) { R_viol("field-trace", "block-count", fn + fmt(": %zu blocks traced here, %zu by the reference build", cur.size(), ref.size())); return false; }
	for (size_t i = 0; i < cur.size(); i++)
		if (cur[i] != ref[i]) {
			std::string ty = cur[i].substr(0, cur[i].find(':'));
			// first differing token
			std::istringstream a(cur[i]), b(ref[i]);
			std::string ta, tb;
			int k = 0;
			while (true) { bool ea = !(a >> ta), eb = !(b >> tb); if (ea || eb || ta != tb) { if (ea) ta = "<end>"; if (eb) tb = "<end>"; break; } k++; }
			R_viol("field-trace", ty, fn + fmt(": block %zu (%s): typed field #%d is '%s' here but '%s' in the reference build (kind.size.member-offset)", i, ty.c_str(), k, ta.c_str(), tb.c_str()));
			return false;
		}
	return true;
}

void run(size_t idx) {
	if (idx < g_refFiles.size()) {
		const std::string& fn = g_refFiles[idx];
		std::string bytes = slurp(baseDir() + "/R/" + fn);
		R_caseDesc("written by the reference build: " + fn);
		R_eval();
		std::string site, err;
		int rc = 0;
		R_phase("load");
		err = c07ReloadCheck(bytes, site, &rc);
		if (!err.empty()) { R_viol("reference-file-read-by-current", site, fn + ": " + err); return; }
		NifFile f;
		loadNif(f, bytes);
		R_phase("save:raw");
		SaveTrace tr;
		tr.recordTokens = true;
		std::string again = saveTraced(f, true, tr);
		if (again != bytes) { FileDiff d = diffFiles(bytes, again, verClass(f.GetHeader().GetVersion())); R_viol("reference-file-reencoded-by-current", d.site, fn + ": " + d.detail); return; }
		if (!traceAgrees(baseDir() + "/R/" + fn, tr, fn)) return;
		R_stat("reference_written_files_ok");
		R_cover("R/" + fn + "/" + std::to_string(hashStr(bytes)));
		if (idx % 1500 == 7) R_sample(fmt("{\"direction\":\"reference -> current\",\"file\":\"%s\",\"bytes\":%zu}", fn.c_str(), bytes.size()));
		return;
	}
	idx -= g_refFiles.size();
	auto& v = g_refVerdicts[idx];
	R_caseDesc("written by the current build, judged by the reference build: " + v[0]);
	R_eval();
	if (v[1] != "OK") { R_viol("current-file-read-by-reference", v[2], v[0] + ": " + v[3]); return; }
	{
		// the same file re-encoded here: the typed field traces of the two builds must agree
		std::string bytes = slurp(baseDir() + "/C/" + v[0]);
		NifFile f;
		if (loadNif(f, bytes) != 0) { R_viol("current-file-read-by-current", "load", v[0] + ": does not load"); return; }
		SaveTrace tr;
		tr.recordTokens = true;
		saveTraced(f, true, tr);
		if (!traceAgrees(baseDir() + "/C/" + v[0], tr, v[0])) return;
	}
	R_stat("current_written_files_ok");
	R_cover("C/" + v[0]);
	if (idx % 1500 == 7) R_sample(fmt("{\"direction\":\"current -> reference\",\"file\":\"%s\",\"verdict\":\"OK\"}", v[0].c_str()));
}

// generation mode: write the normal forms of this build's synthesised files and of the real samples
void runGen(size_t idx) {
	std::string dir = baseDir() + "/C";
	if (idx < c08::planSize()) {
		c08::Item it = c08::planItem(idx);
		SynthFile S = synthFile(*it.ver, it.type, it.seed, it.opts);
		if (!S.ok) return;
		NifFile f;
		if (loadNif(f, S.bytes) != 0) return;
		std::ofstream o(dir + "/" + it.id + ".nif", std::ios::binary);
		o << saveNif(f, true);
		R_eval();
		R_cover(it.id);
		return;
	}
	idx -= c08::planSize();
	auto& s = realSamples()[idx];
	NifFile f;
	if (loadNif(f, s.bytes) != 0) return;
	std::string n = s.name;
	for (auto& c : n) if (c == '/') c = '_';
	std::ofstream o(dir + "/real." + n + ".0.nif", std::ios::binary);
	o << saveNif(f, true);
	R_eval();
	R_cover(n);
}

MonReg regGen({"C08GEN", "exploration", "internal: writes the current build's normal forms for reftool", [] { return c08::planSize() + realSamples().size(); }, runGen, 60, 120.0, false, false, nullptr});

MonReg reg({"C08", "exploration",
			"program pair (reference build = vendored snapshot /verif/ref compiled without sanitizers, current build = /repo working tree). Inputs: a populated instance of each of the 304 "
			"block types in each of 36 versions (14 + 22 Fallout 3 range streams) inside a planned file (1 seed quick / 6 thorough), synthesised independently by each build through its own reader, plus the real samples; "
			"every input is first brought into its writer's normal form. Oracle, both directions: the other build survives the file (the reference side judges each file in a forked child), loads it with rc 0, consumes for every block exactly the bytes "
			"the size table declares and reaches the footer, its raw re-save is byte-identical (diffed block by block), and the typed field traces of the two builds for that re-save "
			"(per block the sequence of kind.size.member-offset of every Sync'ed field, reference and string, from the NIFLY_VERIF hooks) are equal. Catches field order / width / version-gate changes made "
			"consistently on the read and the write side, which no single-build round trip can see. Non-trivial = file that passed in its direction; distinct by file content.",
			[] { return g_refFiles.size() + g_refVerdicts.size(); }, run, 60, 120.0, false, false, init});
} // namespace
