// C09 — deleting vertices keeps a shape and its skin data consistent.
// Reference model: survivors in order with bit-identical attributes, triangles filtered + re-indexed in order,
// NiSkinData weights / BSTriShape vertex weights / LOCKEDNORM lists restricted and re-indexed; range, counter,
// partition (C10) and segment-range invariants; save + reload returns the same geometry.
#include "skinmodel.hpp"
#include "sources.hpp"

namespace {
using namespace vf;

struct Peek : BSSubIndexTriShape { using BSSubIndexTriShape::segmentation; };

template<typename T> bool bitEq(const std::vector<T>& a, const std::vector<T>& b) { return a.size() == b.size() && (a.empty() || memcmp(a.data(), b.data(), a.size() * sizeof(T)) == 0); }
template<typename T> std::vector<T> keep(const std::vector<T>& v, const std::vector<int>& collapse) {
	std::vector<T> o;
	for (size_t i = 0; i < v.size() && i < collapse.size(); i++)
		if (collapse[i] >= 0) o.push_back(v[i]);
	return o;
}

struct State {
	std::vector<Vector3> verts, normals, tangents, bitangents;
	std::vector<Vector2> uvs;
	std::vector<std::vector<Vector2>> allUv;                                // NiGeometryData: every stored UV set (files before stream 34 hold up to 63)
	std::vector<Color4> colors;
	std::vector<float> eye;
	std::vector<Triangle> tris;
	bool hasN = false, hasT = false, hasC = false, hasUV = false, hasEye = false;
	std::vector<std::vector<std::pair<uint16_t, float>>> skinData;          // NiSkinData: per bone (index, weight) in order
	std::vector<std::array<float, 4>> bsWeights;                            // BSTriShape per vertex
	std::vector<std::array<uint8_t, 4>> bsBones;
	std::vector<std::vector<uint32_t>> locked;                               // LOCKEDNORM lists (one per extra data block)
	bool isStrips = false, isBS = false;
};

State capture(NifFile& nif, NiShape* s) {
	State st;
	auto& hdr = nif.GetHeader();
	nif.GetVertsForShape(s, st.verts);
	if (auto n = nif.GetNormalsForShape(s)) { st.normals = *n; st.hasN = s->HasNormals(); }
	st.hasT = nif.GetTangentsForShape(s, st.tangents) && nif.GetBitangentsForShape(s, st.bitangents);
	st.hasUV = nif.GetUvsForShape(s, st.uvs);
	if (auto gd = s->GetGeomData()) st.allUv = gd->uvSets;
	st.hasC = nif.GetColorsForShape(s, st.colors);
	st.hasEye = NifFile::GetEyeDataForShape(s, st.eye);
	s->GetTriangles(st.tris);
	st.isStrips = s->HasType<NiTriStrips>();
	if (auto bs = dynamic_cast<BSTriShape*>(s)) {
		st.isBS = true;
		for (auto& v : bs->vertData) {
			st.bsWeights.push_back({v.weights[0], v.weights[1], v.weights[2], v.weights[3]});
			st.bsBones.push_back({v.weightBones[0], v.weightBones[1], v.weightBones[2], v.weightBones[3]});
		}
	}
	if (auto si = hdr.GetBlock<NiSkinInstance>(s->SkinInstanceRef()))
		if (auto sd = hdr.GetBlock(si->dataRef))
			for (auto& b : sd->bones) {
				st.skinData.emplace_back();
				for (auto& w : b.vertexWeights) st.skinData.back().push_back({w.index, w.weight});
			}
	for (auto& ed : s->extraDataRefs)
		if (auto ie = hdr.GetBlock<NiIntegersExtraData>(ed))
			if (ie->name == "LOCKEDNORM") {
				st.locked.emplace_back();
				for (uint32_t i = 0; i < ie->integersData.size(); i++) st.locked.back().push_back(ie->integersData[i]);
			}
	return st;
}

bool V(const std::string& cls, const std::string& kind, const std::string& d) { R_viol("delete-verts", kind + "/" + cls, d); return false; }

// one deletion on one shape, checked against the model; returns false after a violation
bool deleteAndCheck(NifFile& nif, NiShape* s, const std::vector<uint16_t>& del, const std::string& what) {
	auto& hdr = nif.GetHeader();
	std::string kind = s->GetBlockName();
	bool skinned = hdr.GetBlock<NiSkinInstance>(s->SkinInstanceRef()) != nullptr;
	bool partsOkBefore = false, bindOkBefore = false;
	if (skinned) {
		auto si = hdr.GetBlock<NiSkinInstance>(s->SkinInstanceRef());
		if (hdr.GetBlock(si->skinPartitionRef) && hdr.GetBlock(si->dataRef)) {
			partsOkBefore = checkPartitions(nif, s, true).empty();
			// where the partitions' per-vertex bones and weights agree with NiSkinData before the deletion they have to agree afterwards
			bindOkBefore = partsOkBefore && checkPartitions(nif, s, true, nullptr, false, true).empty();
		}
	}
	NifSegmentationInfo segInf;
	std::vector<int> segLabels;
	bool segmented = hdr.GetVersion().Stream() >= 130 && NifFile::GetShapeSegments(s, segInf, segLabels) && !segInf.segs.empty();
	State pre = capture(nif, s);
	size_t nv = pre.verts.size();
	std::vector<int> collapse(nv);
	{
		size_t di = 0;
		int d = 0;
		for (size_t v = 0; v < nv; v++) { if (di < del.size() && del[di] == v) { collapse[v] = -1; di++; } else collapse[v] = d++; }
	}
	size_t nvAfter = nv - del.size();
	R_eval();
	R_phase("DeleteVertsForShape");
	nif.DeleteVertsForShape(s, del);
	R_phase("check");
	State post = capture(nif, s);
	std::string w = what + fmt(" [%s: %zu of %zu vertices deleted, first %u last %u]", kind.c_str(), del.size(), nv, del.front(), del.back());
	if (s->GetNumVertices() != nvAfter) return V("vertex-count", kind, w + fmt(": GetNumVertices() = %u, expected %zu", s->GetNumVertices(), nvAfter));
	if (!bitEq(post.verts, keep(pre.verts, collapse))) return V("positions", kind, w + ": surviving positions are not the original ones in order");
	if (pre.hasUV && !bitEq(post.uvs, keep(pre.uvs, collapse))) return V("uvs", kind, w + ": surviving UVs changed");
	if (post.allUv.size() != pre.allUv.size()) return V("uv-sets", kind, w + fmt(": %zu UV sets before, %zu after", pre.allUv.size(), post.allUv.size()));
	for (size_t k = 0; k < pre.allUv.size(); k++)
		if (pre.allUv[k].size() == nv && !bitEq(post.allUv[k], keep(pre.allUv[k], collapse))) return V("uv-sets", kind, w + fmt(": UV set %zu of %zu does not hold exactly the survivors' coordinates (%zu entries for %zu vertices)", k, pre.allUv.size(), post.allUv[k].size(), nvAfter));
	if (pre.hasN && !pre.normals.empty() && !bitEq(post.normals, keep(pre.normals, collapse))) return V("normals", kind, w + ": surviving normals changed");
	if (pre.hasT && (!bitEq(post.tangents, keep(pre.tangents, collapse)) || !bitEq(post.bitangents, keep(pre.bitangents, collapse)))) return V("tangents", kind, w + ": surviving tangents/bitangents changed");
	if (pre.hasC && !bitEq(post.colors, keep(pre.colors, collapse))) return V("colors", kind, w + ": surviving vertex colours changed");
	if (pre.hasEye && !bitEq(post.eye, keep(pre.eye, collapse))) return V("eye-data", kind, w + ": surviving eye data changed");
	if (pre.isBS && (!bitEq(post.bsWeights, keep(pre.bsWeights, collapse)) || !bitEq(post.bsBones, keep(pre.bsBones, collapse)))) return V("vertex-weights", kind, w + ": surviving BSTriShape vertex weights changed");
	// triangles
	for (auto& t : post.tris)
		if (t.p1 >= nvAfter || t.p2 >= nvAfter || t.p3 >= nvAfter) return V("triangle-index-range", kind, w + fmt(": triangle (%u,%u,%u) refers to a vertex >= %zu", t.p1, t.p2, t.p3, nvAfter));
	if (!pre.isStrips) {
		std::vector<Triangle> want;
		for (auto& t : pre.tris) {
			if (t.p1 >= nv || t.p2 >= nv || t.p3 >= nv) continue;
			if (collapse[t.p1] < 0 || collapse[t.p2] < 0 || collapse[t.p3] < 0) continue;
			want.push_back(Triangle((uint16_t)collapse[t.p1], (uint16_t)collapse[t.p2], (uint16_t)collapse[t.p3]));
		}
		if (post.tris.size() != want.size()) return V("triangle-count", kind, w + fmt(": %zu triangles left, expected %zu", post.tris.size(), want.size()));
		for (size_t i = 0; i < want.size(); i++)
			if (post.tris[i].p1 != want[i].p1 || post.tris[i].p2 != want[i].p2 || post.tris[i].p3 != want[i].p3)
				return V("triangle-order-or-index", kind, w + fmt(": triangle %zu is (%u,%u,%u), expected (%u,%u,%u)", i, post.tris[i].p1, post.tris[i].p2, post.tris[i].p3, want[i].p1, want[i].p2, want[i].p3));
		if (s->GetNumTriangles() != want.size()) return V("triangle-counter", kind, w + fmt(": GetNumTriangles() = %u, list has %zu", s->GetNumTriangles(), want.size()));
	}
	else if (auto sd = hdr.GetBlock<NiTriStripsData>(s->DataRef())) {
		for (size_t i = 0; i < sd->stripsInfo.points.size(); i++) {
			if (i < sd->stripsInfo.stripLengths.size() && sd->stripsInfo.stripLengths[(uint16_t)i] != sd->stripsInfo.points[i].size()) return V("strip-length-counter", kind, w + fmt(": strip %zu length counter disagrees with its points", i));
			for (auto p : sd->stripsInfo.points[i])
				if (p >= nvAfter) return V("strip-index-range", kind, w + fmt(": strip %zu refers to vertex %u >= %zu", i, p, nvAfter));
		}
	}
	// NiSkinData
	if (!pre.skinData.empty()) {
		if (post.skinData.size() != pre.skinData.size()) return V("skin-bone-count", kind, w + ": number of bones in NiSkinData changed");
		for (size_t b = 0; b < pre.skinData.size(); b++) {
			std::vector<std::pair<uint16_t, float>> want;
			for (auto& p : pre.skinData[b]) {
				if (p.first >= nv) continue;   // stale entries beyond the vertex count are not part of the model
				if (collapse[p.first] >= 0) want.push_back({(uint16_t)collapse[p.first], p.second});
			}
			std::vector<std::pair<uint16_t, float>> got;
			for (auto& p : post.skinData[b]) { if (p.first >= nvAfter) return V("skin-weight-index-range", kind, w + fmt(": bone %zu weights vertex %u >= %zu", b, p.first, nvAfter)); got.push_back(p); }
			bool stale = false;
			for (auto& p : pre.skinData[b]) if (p.first >= nv) stale = true;
			if (!stale && got != want) return V("skin-weights", kind, w + fmt(": NiSkinData weights of bone %zu are not the restricted, re-indexed originals (%zu vs %zu entries)", b, got.size(), want.size()));
		}
		auto si = hdr.GetBlock<NiSkinInstance>(s->SkinInstanceRef());
		if (auto sd = si ? hdr.GetBlock(si->dataRef) : nullptr)
			for (size_t b = 0; b < sd->bones.size(); b++)
				if (sd->bones[b].numVertices != sd->bones[b].vertexWeights.size()) return V("skin-weight-counter", kind, w + fmt(": bone %zu counter %u != %zu weights", b, sd->bones[b].numVertices, sd->bones[b].vertexWeights.size()));
	}
	// partitions
	if (partsOkBefore && nvAfter > 0) {
		// after a deletion the statement only demands valid indices and agreeing counters (a vertex map may keep vertices whose
		// triangles went away); the exact-map invariant belongs to rebuilt partitions (C10)
		auto errs = checkPartitions(nif, s, true, nullptr, false, bindOkBefore);
		if (!errs.empty()) return V("partition/" + invClass(errs[0]), kind, w + ": " + errs[0]);
		if (bindOkBefore) R_stat("deletions_with_partition_binding_checked");
	}
	// LOCKEDNORM
	{
		size_t k = 0;
		for (auto& ed : s->extraDataRefs)
			if (auto ie = hdr.GetBlock<NiIntegersExtraData>(ed))
				if (ie->name == "LOCKEDNORM" && k < pre.locked.size()) {
					std::vector<uint32_t> want;
					bool inDomain = true;
					for (auto x : pre.locked[k]) { if (x >= nv) { inDomain = false; continue; } if (collapse[x] >= 0) want.push_back((uint32_t)collapse[x]); }
					std::sort(want.begin(), want.end());
					std::vector<uint32_t> got = post.locked[k];
					for (auto x : got) if (x >= nvAfter && inDomain) return V("locked-normal-index-range", kind, w + fmt(": LOCKEDNORM lists vertex %u >= %zu", x, nvAfter));
					if (inDomain && got != want) return V("locked-normals", kind, w + fmt(": LOCKEDNORM list has %zu entries, expected %zu (sorted, re-indexed survivors)", got.size(), want.size()));
					k++;
				}
	}
	// segments (FO4 table): ranges partition the triangles, labels preserved
	if (segmented) {
		auto bs = dynamic_cast<BSSubIndexTriShape*>(s);
		auto& st = bs->*(&Peek::segmentation);
		uint32_t nt = (uint32_t)post.tris.size(), sum = 0, pos = 0;
		if (st.numPrimitives != nt) return V("segment-table-total", kind, w + fmt(": segment table says %u primitives, %u triangles left", st.numPrimitives, nt));
		for (auto& sg : st.segments) {
			if (sg.startIndex != pos * 3) return V("segment-table-contiguity", kind, w + ": segment ranges are not contiguous after the deletion");
			pos += sg.numPrimitives;
			sum += sg.numPrimitives;
			for (auto& sb : sg.subSegments)
				if (sb.startIndex / 3 + sb.numPrimitives > pos || sb.startIndex < sg.startIndex) return V("segment-table-nesting", kind, w + ": a sub-segment range leaves its segment after the deletion");
		}
		if (sum != nt) return V("segment-table-sum", kind, w + fmt(": segment sizes sum to %u, %u triangles left", sum, nt));
		NifSegmentationInfo inf2;
		std::vector<int> lab2;
		NifFile::GetShapeSegments(s, inf2, lab2);
		std::vector<int> want;
		for (size_t i = 0; i < pre.tris.size() && i < segLabels.size(); i++) {
			auto& t = pre.tris[i];
			if (collapse[t.p1] < 0 || collapse[t.p2] < 0 || collapse[t.p3] < 0) continue;
			want.push_back(segLabels[i]);
		}
		if (lab2 != want) return V("segment-labels", kind, w + ": per-triangle segment labels of the surviving triangles changed");
	}
	R_stat("deletions_checked");
	R_stat("vertices_deleted", (long)del.size());
	return true;
}

std::vector<uint16_t> pickSet(Rng& rng, size_t nv, int mode) {
	std::vector<uint16_t> d;
	if (nv == 0) return d;
	switch (mode % 8) {
		case 0: d.push_back((uint16_t)rng.below((uint32_t)nv)); break;                                           // single
		case 1: for (size_t i = 0; i < 1 + rng.below((uint32_t)std::max<size_t>(1, nv / 2)); i++) d.push_back((uint16_t)i); break;   // prefix
		case 2: for (size_t i = nv - 1 - rng.below((uint32_t)std::max<size_t>(1, nv / 2)); i < nv; i++) d.push_back((uint16_t)i); break;   // suffix (contains the last vertex)
		case 3: for (size_t i = 0; i < nv; i += 2) d.push_back((uint16_t)i); break;                               // alternating
		case 4: for (size_t i = 0; i < nv; i++) d.push_back((uint16_t)i); break;                                  // all
		case 5: d.push_back((uint16_t)(nv - 1)); break;                                                           // the last vertex only
		default: for (size_t i = 0; i < nv; i++) if (rng.coin(mode % 8 == 6 ? 4 : 12)) d.push_back((uint16_t)i); if (d.empty()) d.push_back((uint16_t)rng.below((uint32_t)nv)); break;
	}
	return d;
}

// turns the NiTriShape of an OB/FO3/SK model into NiTriStrips (strips of random length built from its triangles)
NiShape* toStrips(NifFile& nif, NiShape* shape, Rng& rng) {
	auto& hdr = nif.GetHeader();
	auto tsd = hdr.GetBlock<NiTriShapeData>(shape->DataRef());
	auto ts = dynamic_cast<NiTriShape*>(shape);
	if (!tsd || !ts) return nullptr;
	std::vector<Triangle> tris;
	tsd->GetTriangles(tris);
	auto sd = std::make_unique<NiTriStripsData>();
	*static_cast<NiTriBasedGeomData*>(sd.get()) = *static_cast<NiTriBasedGeomData*>(tsd);
	for (auto& t : tris) {
		std::vector<uint16_t> strip{t.p1, t.p2, t.p3};
		if (rng.coin(3)) strip.push_back((uint16_t)rng.below(tsd->GetNumVertices()));
		sd->stripsInfo.points.push_back(strip);
		uint16_t l = (uint16_t)strip.size();
		sd->stripsInfo.stripLengths.push_back(l);
	}
	auto strips = std::make_unique<NiTriStrips>();
	*static_cast<NiTriBasedGeom*>(strips.get()) = *static_cast<NiTriBasedGeom*>(ts);
	NiTriStripsData* sdRaw = sd.get();
	NiTriStrips* sRaw = strips.get();
	uint32_t dataId = nif.GetBlockID(tsd), shapeId = nif.GetBlockID(shape);
	hdr.ReplaceBlock(shapeId, std::move(strips));
	hdr.ReplaceBlock(dataId, std::move(sd));
	sRaw->SetGeomData(sdRaw);
	return sRaw;
}

bool sameGeometry(NifFile& a, NiShape* sa, NifFile& b, NiShape* sb) {
	State x = capture(a, sa), y = capture(b, sb);
	if (!bitEq(x.verts, y.verts) || x.tris.size() != y.tris.size()) return false;
	std::multiset<std::tuple<int, int, int>> ta, tb;
	for (auto t : x.tris) { t = normTri(t); ta.insert({t.p1, t.p2, t.p3}); }
	for (auto t : y.tris) { t = normTri(t); tb.insert({t.p1, t.p2, t.p3}); }
	return ta == tb && bitEq(x.uvs, y.uvs);
}

void runModel(NifFile& nif, const std::string& what, Rng& rng, int rounds, int modeBase) {
	for (int r = 0; r < rounds; r++) {
		auto shapes = nif.GetShapes();
		if (shapes.empty()) return;
		NiShape* s = shapes[rng.below((uint32_t)shapes.size())];
		size_t nv = s->GetNumVertices();
		if (nv == 0) continue;
		auto del = pickSet(rng, nv, modeBase + r);
		if (!deleteAndCheck(nif, s, del, what)) return;
	}
	// save + reload returns the same geometry
	R_phase("save+reload");
	NifFile cp(nif);
	std::string bytes = saveNif(cp, false);
	NifFile re;
	if (loadNif(re, bytes) != 0) { R_viol("delete-verts", "reload/load", what + ": model does not reload after vertex deletion"); return; }
	// compare against a second reload (so that only storage quantisation of the first save is involved)
	NifFile re2;
	NifFile cp2(re);
	if (loadNif(re2, saveNif(cp2, false)) != 0) { R_viol("delete-verts", "reload/load2", what + ": second reload fails"); return; }
	auto s1 = re.GetShapes(), s2 = re2.GetShapes(), s0 = nif.GetShapes();
	if (s1.size() != s2.size()) { R_viol("delete-verts", "reload/shape-count", what + ": shape count changes on reload"); return; }
	for (size_t i = 0; i < s1.size(); i++)
		if (!sameGeometry(re, s1[i], re2, s2[i])) { R_viol("delete-verts", std::string("reload/geometry/") + s1[i]->GetBlockName(), what + ": geometry changes between reloads after vertex deletion"); return; }
	// vertex and triangle counts survive the first save
	size_t k = 0;
	for (auto s : s0) {
		if (s->GetNumVertices() == 0 || s->GetNumTriangles() == 0) continue;   // emptied shapes may be dropped
		NiShape* m = nullptr;
		for (auto c : s1) if (c->name.get() == s->name.get()) m = c;
		if (!m) continue;
		if (m->GetNumVertices() != s->GetNumVertices()) { R_viol("delete-verts", std::string("reload/vertex-count/") + s->GetBlockName(), what + fmt(": %u vertices in memory, %u after reload", s->GetNumVertices(), m->GetNumVertices())); return; }
		std::vector<Triangle> ta, tb;
		s->GetTriangles(ta);
		m->GetTriangles(tb);
		std::multiset<std::tuple<int, int, int>> A, B;
		for (auto t : ta) { t = normTri(t); A.insert({t.p1, t.p2, t.p3}); }
		for (auto t : tb) { t = normTri(t); B.insert({t.p1, t.p2, t.p3}); }
		if (A != B && !s->HasType<NiTriStrips>()) { R_viol("delete-verts", std::string("reload/triangles/") + s->GetBlockName(), what + ": triangle set differs after reload"); return; }
		// per-vertex attributes: what the model holds after the deletions is what the file gives back (NiGeometry data is stored as
		// floats: exact; BSTriShape vertex data is quantised: positions/UVs to half floats unless full precision, vectors to bytes)
		{
			State a = capture(nif, s), b = capture(re, m);
			bool bs = a.isBS;
			auto cmp3 = [&](const std::vector<Vector3>& x, const std::vector<Vector3>& y, float tolAbs, float tolRel) {
				if (x.size() != y.size()) return false;
				for (size_t i = 0; i < x.size(); i++) {
					float mag = std::max({std::fabs(x[i].x), std::fabs(x[i].y), std::fabs(x[i].z)});
					if (!(x[i].DistanceTo(y[i]) <= tolAbs + tolRel * mag)) return false;
				}
				return true;
			};
			std::string kind = s->GetBlockName();
			const char* bad = nullptr;
			if (!cmp3(a.verts, b.verts, bs ? 1e-3f : 0.0f, bs ? 2e-3f : 0.0f)) bad = "positions";
			else if (a.hasN != b.hasN || (a.hasN && !cmp3(a.normals, b.normals, bs ? 2e-2f : 0.0f, 0.0f))) bad = "normals";
			else if (a.hasT != b.hasT || (a.hasT && (!cmp3(a.tangents, b.tangents, bs ? 2e-2f : 0.0f, 0.0f) || !cmp3(a.bitangents, b.bitangents, bs ? 2e-2f : 0.0f, bs ? 2e-3f : 0.0f)))) bad = "tangents";
			else if (a.hasUV != b.hasUV || a.uvs.size() != b.uvs.size()) bad = "uvs";
			else if (a.hasC != b.hasC || a.colors.size() != b.colors.size()) bad = "colors";
			if (!bad && a.allUv.size() > 1 && (a.allUv.size() != b.allUv.size() || !std::equal(a.allUv.begin(), a.allUv.end(), b.allUv.begin(), [](auto& x, auto& y) { return bitEq(x, y); }))) bad = "uv-sets";
			if (!bad && a.hasUV)
				for (size_t i = 0; i < a.uvs.size(); i++)
					if (std::fabs(a.uvs[i].u - b.uvs[i].u) > (bs ? 2e-3f * (1.0f + std::fabs(a.uvs[i].u)) : 0.0f) || std::fabs(a.uvs[i].v - b.uvs[i].v) > (bs ? 2e-3f * (1.0f + std::fabs(a.uvs[i].v)) : 0.0f)) { bad = "uvs"; break; }
			if (!bad && a.hasC)
				for (size_t i = 0; i < a.colors.size(); i++)
					if (std::fabs(a.colors[i].r - b.colors[i].r) > (bs ? 5e-3f : 0.0f) || std::fabs(a.colors[i].g - b.colors[i].g) > (bs ? 5e-3f : 0.0f) || std::fabs(a.colors[i].b - b.colors[i].b) > (bs ? 5e-3f : 0.0f) || std::fabs(a.colors[i].a - b.colors[i].a) > (bs ? 5e-3f : 0.0f)) { bad = "colors"; break; }
			if (bad) { R_viol("delete-verts", std::string("reload/") + bad + "/" + kind, what + ": " + bad + " of shape '" + s->name.get() + "' read back from the saved file differ from the model after the deletions"); return; }
			R_stat("shapes_compared_attribute_by_attribute_after_reload");
		}
		k++;
	}
	R_cover(what);
}

struct Plan { size_t api; size_t realRounds; int exhMax; };
Plan plan() { return g_cfg.tier ? Plan{16000, 100, 7} : Plan{1500, 8, 5}; }

void run(size_t idx) {
	Plan p = plan();
	size_t nReal = realSamples().size() * p.realRounds;
	static const char* VN[] = {"OB", "FO3", "SK", "SSE", "FO4", "FO76"};
	if (idx < nReal) {
		auto& smp = realSamples()[idx / p.realRounds];
		uint64_t seed = mix(g_cfg.seed, 0xC09000 + idx);
		Rng rng(seed);
		NifFile nif;
		if (loadNif(nif, smp.bytes) != 0) return;
		std::string what = fmt("real:%s seed=%llu", smp.name.c_str(), (unsigned long long)seed);
		R_caseDesc(what);
		runModel(nif, what, rng, 1 + (int)rng.below(4), (int)(idx % 8));
		if (idx == 0) R_sample(fmt("{\"source\":\"real\",\"file\":\"%s\"}", smp.name.c_str()));
		return;
	}
	idx -= nReal;
	// exhaustive subsets on small meshes: nv 1..exhMax, all non-empty subsets, six versions, skinned and unskinned
	size_t nExh = 6 * 2 * (size_t)p.exhMax;
	if (idx < nExh) {
		int nv = 1 + (int)(idx % (size_t)p.exhMax);
		bool skinned = (idx / (size_t)p.exhMax) % 2;
		const char* ver = VN[idx / (2 * (size_t)p.exhMax)];
		ApiOpts ao;
		ao.version = ver;
		ao.shapes = 1;
		ao.nv = nv;
		ao.nt = 4;
		ao.skinned = skinned && nv >= 3;
		ao.bones = 2;
		ao.segments = true;
		ao.extras = true;
		ApiModel m = buildApiModel(mix(g_cfg.seed, 0xC09E00 + idx), (int)idx, &ao);
		if (!m.ok) return;
		for (uint32_t mask = 1; mask < (1u << nv); mask++) {
			NifFile nif;
			if (loadNif(nif, m.bytes) != 0) return;
			auto shapes = nif.GetShapes();
			if (shapes.empty()) return;
			std::vector<uint16_t> del;
			for (int b = 0; b < nv; b++) if (mask & (1u << b)) del.push_back((uint16_t)b);
			std::string what = fmt("exhaustive %s nv=%d skinned=%d mask=%x", ver, nv, (int)ao.skinned, mask);
			R_caseDesc(what);
			if (!deleteAndCheck(nif, shapes[0], del, what)) break;
			R_cover(what);
		}
		if (idx == 3) R_sample(fmt("{\"source\":\"exhaustive\",\"version\":\"%s\",\"vertices\":%d,\"subsets\":%u}", ver, nv, (1u << nv) - 1));
		return;
	}
	idx -= nExh;
	if (idx >= p.api) {
		// more triangles than a 16-bit counter holds (only FO4 and later store that many): a regular grid, two successive deletions
		size_t k = idx - p.api;
		const char* ver = k % 2 ? "FO76" : "FO4";
		Rng rng(mix(g_cfg.seed, 0xC09B00 + k));
		int side = 186 + (int)rng.below(12);
		Mesh mesh;
		for (int y = 0; y < side; y++)
			for (int x = 0; x < side; x++) { mesh.verts.push_back(Vector3((float)x, (float)y, (float)((x * 7 + y * 3) % 5))); mesh.uvs.push_back(Vector2((float)x / side, (float)y / side)); mesh.normals.push_back(Vector3(0, 0, 1)); }
		for (int y = 0; y + 1 < side; y++)
			for (int x = 0; x + 1 < side; x++) {
				uint16_t a = (uint16_t)(y * side + x), b = (uint16_t)(a + 1), c = (uint16_t)(a + side), d = (uint16_t)(c + 1);
				mesh.tris.push_back(Triangle(a, b, c));
				mesh.tris.push_back(Triangle(b, d, c));
			}
		NifFile nif;
		nif.Create(toNiVersion(*findVer(ver)));
		NiShape* s = nif.CreateShapeFromData("grid", &mesh.verts, &mesh.tris, &mesh.uvs, &mesh.normals);
		if (!s) return;
		std::string what = fmt("grid %s %dx%d: %zu vertices, %zu triangles", ver, side, side, mesh.verts.size(), mesh.tris.size());
		R_caseDesc(what);
		if (s->GetNumTriangles() != mesh.tris.size()) { R_stat("large_grid_not_accepted"); return; }
		for (int round = 0; round < 2; round++) {
			uint16_t nv = s->GetNumVertices();
			std::vector<uint16_t> del;
			for (uint16_t v = 0; v < nv; v++) if (rng.coin(4000)) del.push_back(v);
			del.push_back((uint16_t)(nv - 1 - round));
			std::sort(del.begin(), del.end());
			del.erase(std::unique(del.begin(), del.end()), del.end());
			if (!deleteAndCheck(nif, s, del, what)) return;
			s = nif.GetShapes().at(0);
		}
		R_stat("shapes_with_more_than_65535_triangles");
		R_cover(what);
		return;
	}
	{
		uint64_t seed = mix(g_cfg.seed, 0xC09A00 + idx);
		Rng rng(seed);
		ApiOpts ao;
		ao.version = VN[idx % 6];
		ao.segments = idx % 2 == 0;
		ao.usedObject = idx % 4 == 1;
		ao.partitions = idx % 3 == 0;
		ao.colors = idx % 4 == 0;
		ApiModel m = buildApiModel(seed, (int)idx, &ao);
		if (!m.ok) return;
		NifFile nif;
		if (loadNif(nif, m.bytes) != 0) return;
		std::string what = "api:" + m.desc;
		if (idx % 7 == 3 && permutePartitionVertexMaps(nif, rng) > 0) what += " [partition vertex maps permuted]";
		if (idx % 7 == 5 && stripPartitions(nif, rng) > 0) { what += " [partition faces stored as strips]"; R_stat("models_with_strip_partitions"); }
		if (idx % 6 == 3 && idx % 4 == 3 && dropPartitionFaces(nif) > 0) {
			// SSE: a file whose partitions come without the optional face list
			NifFile cp(nif);
			std::string b2 = saveNif(cp, true);
			if (loadNif(nif, b2) != 0) return;
			what += " [partitions without face lists]";
			R_stat("models_with_partitions_without_face_lists");
		}
		if (idx % 6 == 0 && (idx / 6) % 2 == 1) {
			// Oblivion-era geometry stores up to 63 UV sets (count in the low bits of the data flags): base map plus detail / light maps
			int extra = 0;
			for (auto sh : nif.GetShapes())
				if (auto gd = sh->GetGeomData()) {
					if (gd->uvSets.size() != 1) continue;
					size_t k = 2 + rng.below(3);
					gd->uvSets.resize(k, gd->uvSets[0]);
					for (size_t q = 1; q < k; q++)
						for (size_t v = 0; v < gd->uvSets[q].size(); v++) gd->uvSets[q][v] = Vector2((float)q + (float)v / 1024.0f, 0.5f - (float)v / 512.0f);
					gd->dataFlags = (uint16_t)((gd->dataFlags & ~0x3F) | k);
					extra++;
				}
			if (extra) { what += " [2..4 UV sets per shape]"; R_stat("models_with_several_uv_sets"); }
		}
		bool strips = false;
		if (idx % 5 == 4 && (idx % 6) < 3) {   // OB/FO3/SK: strip geometry
			auto shapes = nif.GetShapes();
			if (!shapes.empty() && !shapes[0]->IsSkinned() && toStrips(nif, shapes[0], rng)) { strips = true; what += " [shape0 as NiTriStrips]"; }
		}
		R_caseDesc(what);
		runModel(nif, what, rng, 1 + (int)rng.below(5), (int)(idx % 8));
		if (idx < 2) R_sample(fmt("{\"source\":\"api\",\"model\":\"%s\",\"strips\":%s}", jesc(m.desc).c_str(), strips ? "true" : "false"));
	}
}

MonReg reg({"C09", "exploration",
			"shapes: FO4 / FO76 grids with more than 65535 triangles, NiTriShape, NiTriStrips (hand-built strips), BSTriShape, BSDynamicTriShape, BSSubIndexTriShape with FO4 segments, skinned (NiSkinData+partitions, BSSkin) and "
			"unskinned, from API-built models in six versions and from the real samples. Index sets (always sorted, duplicate-free): single, prefix, suffix incl. the last vertex, "
			"alternating, all, last only, random sparse/dense; 1..5 successive deletions; exhaustively every non-empty subset of meshes with 1..5 (quick) / 1..7 (thorough) vertices in "
			"six versions, skinned and unskinned; half of the Oblivion models carry 2..4 UV sets per shape, one model in seven has its mapped partitions stored as triangle strips. Oracle vs reference model: survivors in order with bit-identical positions/UVs (every stored set)/normals/tangents/colours/eye data/vertex weights; "
			"triangle list == filtered, re-indexed originals in order; NiSkinData weights and LOCKEDNORM lists restricted and re-indexed; every index in triangles, strips, skin weights, "
			"partition maps in range; counters equal sizes; C10 partition invariants; FO4 segment table partitions the triangles and labels survive; geometry stable across save+reload and every per-vertex attribute read back from the saved file equals the model after the deletions (exact for NiGeometry data, storage tolerance for BSTriShape); partition bones/weights still agree with NiSkinData where they did before.",
			[] { Plan p = plan(); return realSamples().size() * p.realRounds + 6 * 2 * (size_t)p.exhMax + p.api + (g_cfg.tier ? 12 : 2); }, run, 8, 300.0, false, false, nullptr});
} // namespace
