// C11 — a copied model is equal to and fully independent of its source.
#include "graphsnap.hpp"
#include "battery.hpp"
#include "oracles.hpp"
#include "sources.hpp"

namespace {
using namespace vf;

std::vector<std::string> canonOf(NifFile& n) {
	n.FinalizeData();
	GraphSnap g = snapshotGraph(n);
	std::vector<std::string> out;
	for (auto& b : g.blocks) {
		std::string s = b.type + ":" + b.canon;
		for (auto i : b.slotIndex) s += "|" + std::to_string(i);
		out.push_back(s);
	}
	return out;
}

struct Frozen { std::vector<std::string> battery, canon; };
Frozen freeze(NifFile& n) {
	runBattery(n);   // first run settles lazily cached query state
	Frozen f;
	f.battery = runBattery(n).full;
	f.canon = canonOf(n);
	return f;
}
bool unchanged(NifFile& n, const Frozen& f, const std::string& what, const char* stage, const std::string& vclass) {
	R_eval();
	auto b = runBattery(n).full;
	if (b != f.battery) { R_viol("copy-not-independent", std::string(stage) + "/" + vclass + "/" + diffClass(f.battery, b), what + " [" + stage + "]: the untouched model answers differently: " + firstDiff(f.battery, b)); return false; }
	auto c = canonOf(n);
	if (c != f.canon) {
		std::string ty = "block-count";
		for (size_t i = 0; i < std::min(c.size(), f.canon.size()); i++)
			if (c[i] != f.canon[i]) { ty = c[i].substr(0, c[i].find(':')); break; }
		R_viol("copy-not-independent", std::string(stage) + "/" + vclass + "/" + ty, what + " [" + stage + "]: the untouched model's blocks changed (" + ty + ")");
		return false;
	}
	return true;
}

// edits that go through geometry reached via shapes, names, textures, block structure
std::string heavyEdits(NifFile& n, Rng& rng) {
	std::string log;
	for (auto s : n.GetShapes()) {
		std::vector<Vector3> v;
		if (n.GetVertsForShape(s, v) && !v.empty()) {
			for (auto& p : v) { p.x += 1.0f; p.z *= 2.0f; }
			n.SetVertsForShape(s, v);
			n.MoveVertex(s, Vector3(9, 9, 9), 0);
			log += "moveVerts(" + s->name.get() + ");";
		}
		std::vector<Vector2> uv;
		if (n.GetUvsForShape(s, uv) && !uv.empty()) { n.InvertUVsForShape(s, true, false); log += "invertUVs;"; }
		if (s->GetNumVertices() > 3 && rng.coin()) {
			std::vector<uint16_t> del{0, (uint16_t)(s->GetNumVertices() - 1)};
			n.DeleteVertsForShape(s, del);
			log += "deleteVerts(first,last);";
		}
		std::string tex = "textures\\changed.dds";
		n.SetTextureSlot(s, tex, 0);
		NifFile::RenameShape(s, s->name.get() + "_edited");
	}
	log += applyRandomEdits(n, rng, 4);
	auto& ver = n.GetHeader().GetVersion();
	if ((ver.IsSK() || ver.IsSSE()) && rng.coin()) {
		OptOptions o;
		o.targetVersion = ver.IsSK() ? NiVersion::getSSE() : NiVersion::getSK();
		n.OptimizeFor(o);
		log += "OptimizeFor;";
	}
	return log;
}

void checkModel(const std::string& bytes, const std::string& src, uint64_t seed) {
	Rng rng(seed);
	auto A = std::make_unique<NifFile>();
	if (loadNif(*A, bytes) != 0) { R_stat("input_not_accepted"); return; }
	std::string vclass = verClass(A->GetHeader().GetVersion());
	R_caseDesc(src);
	std::string bytes0;
	{
		NifFile A2;
		loadNif(A2, bytes);
		bytes0 = saveNif(A2, true);
	}
	// 1. equality: copy constructor and assignment (onto a model that already holds something else)
	R_phase("copy-equal");
	{
		R_eval();
		NifFile B(*A);
		std::string sb = saveNif(B, true);
		if (sb != bytes0) { FileDiff d = diffFiles(bytes0, sb, vclass); R_viol("copy-not-equal", "copy-constructor/" + d.site, src + ": raw save of the copy differs from the source's; " + d.detail); return; }
		NifFile C;
		C.Create(NiVersion::getSSE());
		C.AddNode("junk", MatTransform());
		C = *A;
		std::string sc = saveNif(C, true);
		if (sc != bytes0) { FileDiff d = diffFiles(bytes0, sc, vclass); R_viol("copy-not-equal", "assignment/" + d.site, src + ": raw save of the assigned copy differs from the source's; " + d.detail); return; }
		NifFile D(B);   // copy of a copy that was already saved
		std::string sd = saveNif(D, true);
		if (sd != bytes0) { FileDiff d = diffFiles(bytes0, sd, vclass); R_viol("copy-not-equal", "copy-of-saved-copy/" + d.site, src + ": " + d.detail); return; }
	}
	// 1b. models made from rvalues and models that a container relocates (std::vector growth) are full models of their own too
	R_phase("rvalue-and-container");
	{
		R_eval();
		auto tmp = std::make_unique<NifFile>(*A);
		NifFile M(std::move(*tmp));
		tmp.reset();   // whatever M is made of must not live in the object it was made from
		std::string sm = saveNif(M, true);
		if (sm != bytes0) { FileDiff d = diffFiles(bytes0, sm, vclass); R_viol("copy-not-equal", "from-rvalue/" + d.site, src + ": a model constructed from an rvalue of a copy (the source of the construction destroyed afterwards) saves differently; " + d.detail); return; }
		std::vector<NifFile> v;
		for (int k = 0; k < 4; k++) v.push_back(*A);   // growth relocates the earlier elements
		for (size_t k = 0; k < v.size(); k++) {
			std::string sv = saveNif(v[k], true);
			if (sv != bytes0) { FileDiff d = diffFiles(bytes0, sv, vclass); R_viol("copy-not-equal", "vector-element/" + d.site, src + fmt(": element %zu of a std::vector<NifFile> filled with copies saves differently; ", k) + d.detail); return; }
		}
		Frozen f1 = freeze(v[1]);
		Rng r2(seed ^ 0x5EED);
		heavyEdits(v[0], r2);
		if (!unchanged(v[1], f1, src, "vector-element-after-editing-its-neighbour", vclass)) return;
		v.erase(v.begin());
		if (!unchanged(v[0], f1, src, "vector-element-after-erasing-its-neighbour", vclass)) return;
	}
	// 2. editing the copy leaves the source alone
	R_phase("edit-copy");
	{
		Frozen fa = freeze(*A);
		NifFile B(*A);
		std::string pre;
		if (!A->GetShapes().empty() && A->GetRootNode()) {
			// an edit of the copy that reads the source: a shape of the source cloned into the copy (the source is only an argument)
			NiShape* sa = A->GetShapes()[rng.below((uint32_t)A->GetShapes().size())];
			if (B.CloneShape(sa, sa->name.get() + "_from_source", A.get())) pre = "cloneShapeFromSource(" + sa->name.get().substr(0, 40) + ");";
		}
		std::string log = pre + heavyEdits(B, rng);
		saveNif(B, false);
		if (!unchanged(*A, fa, src + " edits on the copy: " + log, "source-after-editing-copy", vclass)) return;
		// 3. editing the source leaves the copy alone
		R_phase("edit-source");
		NifFile C(*A);
		Frozen fc = freeze(C);
		std::string log2 = heavyEdits(*A, rng);
		saveNif(*A, false);
		if (!unchanged(C, fc, src + " edits on the source: " + log2, "copy-after-editing-source", vclass)) return;
		// 4. destroying the source first
		R_phase("destroy-source");
		A.reset();
		if (!unchanged(C, fc, src, "copy-after-destroying-source", vclass)) return;
		std::string out = saveNif(C, false);
		NifFile re;
		if (loadNif(re, out) != 0) { R_viol("copy-not-independent", "copy-after-destroying-source/" + vclass + "/reload", src + ": the copy does not save/reload after its source was destroyed"); return; }
	}
	// 5. destroying the copy first
	R_phase("destroy-copy");
	{
		auto E = std::make_unique<NifFile>();
		loadNif(*E, bytes);
		Frozen fe = freeze(*E);
		{
			auto F = std::make_unique<NifFile>(*E);
			heavyEdits(*F, rng);
			F.reset();
		}
		if (!unchanged(*E, fe, src, "source-after-destroying-edited-copy", vclass)) return;
		saveNif(*E, false);
	}
	R_stat("models_checked");
	R_cover(src);
}

struct Plan { int synSeeds; int api; };
Plan plan() { return g_cfg.tier ? Plan{6, 1200} : Plan{1, 160}; }

void run(size_t idx) {
	Plan p = plan();
	size_t nReal = realSamples().size();
	if (idx < nReal) {
		auto& s = realSamples()[idx];
		checkModel(s.bytes, "real:" + s.name, mix(g_cfg.seed, 0xC11000 + idx));
		if (idx == 0) R_sample(fmt("{\"source\":\"real\",\"file\":\"%s\"}", s.name.c_str()));
		return;
	}
	idx -= nReal;
	const TypeDB& db = typeDB();
	// synthesised: focus on the geometry classes that cache a pointer to their data block, plus a rotating selection
	static const char* GEO[] = {"NiTriShape", "NiTriStrips", "NiLines", "NiScreenElements", "BSLODTriShape", "BSSegmentedTriShape", "BSTriShape", "BSSubIndexTriShape", "BSDynamicTriShape", "BSMeshLODTriShape", "NiParticles", "NiParticleSystem"};
	size_t nGeo = 12 * (size_t)NVERS * (size_t)p.synSeeds;
	size_t nRot = 200 * (size_t)p.synSeeds;
	if (idx < nGeo + nRot) {
		std::string focus;
		const VerInfo* v;
		size_t it;
		if (idx < nGeo) { focus = GEO[idx % 12]; v = &VERS[(idx / 12) % (size_t)NVERS]; it = idx / (12 * (size_t)NVERS); }
		else { size_t k = idx - nGeo; focus = db.names[(k * 17 + (size_t)g_cfg.seed * 5) % db.names.size()]; v = &VERS[(k * 3) % (size_t)NVERS]; it = k / 200; }
		uint64_t seed = mix(mix(g_cfg.seed ^ 0xC11, hashStr(focus)), (uint64_t)(v - VERS) * 100 + it);
		SynthOpts so;
		so.gen.maxCount = 2 + (int)(idx % 3);
		so.gen.minCount = 1;
		SynthFile S = synthFile(*v, focus, seed, so);
		if (!S.ok) return;
		// geometry classes get a normal-form input so that their data blocks are linked like in files the library wrote
		NifFile pre;
		if (loadNif(pre, S.bytes) != 0) return;
		checkModel(saveNif(pre, true), fmt("syn:%s:%s:seed=%llu", v->n, focus.c_str(), (unsigned long long)seed), seed);
		if (idx == 5) R_sample(fmt("{\"source\":\"syn\",\"version\":\"%s\",\"focus\":\"%s\"}", v->n, focus.c_str()));
		return;
	}
	idx -= nGeo + nRot;
	{
		uint64_t seed = mix(g_cfg.seed, 0xC11A00 + idx);
		ApiOpts ao;
		ao.segments = idx % 2 == 0;
		ao.partitions = idx % 3 == 0;
		ao.texturing = (idx / 6) % 2 == 1;
		ao.modelSpace = (idx / 4) % 2 == 1;   // SK / SSE: shaders with model-space normals (cloning drops normals and tangents of the clone)
		ApiModel m = buildApiModel(seed, (int)idx, &ao);
		if (!m.ok) return;
		NifFile cp(*m.nif);
		if (idx % 4 == 2 && cp.GetRootNode() && cp.GetHeader().GetNumBlocks() > 2) {
			// a geometry block without data (placeholder shape) stored in front of the real shapes
			auto ph = std::make_unique<NiTriShape>();
			ph->name.get() = "Placeholder";
			uint32_t id = cp.GetHeader().AddBlock(std::move(ph));
			cp.GetRootNode()->childRefs.AddBlockRef(id);
			uint32_t nb = cp.GetHeader().GetNumBlocks();
			std::vector<uint32_t> order(nb);
			for (uint32_t i = 0; i < nb; i++) order[i] = i == id ? 1 : i >= 1 ? i + 1 : i;   // the new block becomes block 1
			cp.GetHeader().SetBlockOrder(order);
			m.desc += " +placeholder shape without data in front";
		}
		checkModel(saveNif(cp, true), "api:" + m.desc, seed);
		if (idx == 0) R_sample(fmt("{\"source\":\"api\",\"model\":\"%s\"}", jesc(m.desc).c_str()));
	}
}

MonReg reg({"C11", "exploration",
			"models: 52 real samples, synthesised files around every geometry class that caches a pointer to its data block (NiTriShape, NiTriStrips, NiLines, NiScreenElements, "
			"BSLODTriShape, BSSegmentedTriShape, BSTriShape family, particle systems) x 14 versions plus 200 rotating block types, API-built models. Per model under AddressSanitizer: "
			"copy constructor, assignment onto a non-empty model, copy of a saved copy, construction from an rvalue and the elements of a growing std::vector<NifFile> must raw-save to the source's bytes; then edit sequences (vertex moves, UV inversion, vertex "
			"deletion, texture and name changes, random block edits, OptimizeFor) on the copy / on the source with the other side frozen (query battery record + canonical block dump "
			"incl. raw reference indices must stay identical), destruction of the source first (copy still answers, saves, reloads) and of the edited copy first. Non-trivial = model "
			"that went through all stages.",
			[] { Plan p = plan(); return realSamples().size() + 12 * (size_t)NVERS * (size_t)p.synSeeds + 200 * (size_t)p.synSeeds + (size_t)p.api; }, run, 8, 300.0, false, false, nullptr});
} // namespace
