// C03 — blocks of unknown type survive load and save untouched.
// An independent header writer re-labels chosen block types of a valid file with names the library does not know
// (payloads untouched); the saved output is parsed by the independent reader and compared with the input.
#include "oracles.hpp"
#include "sources.hpp"

namespace {
using namespace vf;

struct Entry { std::string name; std::string bytes; indep::Header h; };
std::vector<Entry> g_files;
struct Case { size_t file; uint64_t mask; int emptyExtra = 0; };   // mask over the file's type table (bit i = type i re-labelled); emptyExtra: unknown blocks with a 0-byte payload appended
std::vector<Case> g_cases;

struct Plan { int exhaustiveUpTo; int randomPerFile; int synPerVersion; int apiModels; };
Plan plan() { return g_cfg.tier ? Plan{9, 160, 60, 24} : Plan{7, 24, 16, 12}; }

void addFile(const std::string& name, const std::string& bytes) {
	indep::Header h = indep::parse(bytes);
	if (!h.ok || !h.hasSizes || h.types.empty() || h.types.size() > 60) return;
	if (h.blocksEnd + 8 != bytes.size()) return;
	NifFile probe;
	if (loadNif(probe, bytes) != 0 || probe.HasUnknown()) return;
	g_files.push_back({name, bytes, h});
}

void init() {
	Plan p = plan();
	for (auto& s : realSamples()) addFile("real:" + s.name, s.bytes);
	const TypeDB& db = typeDB();
	for (int vi = 0; vi < NVERS; vi++) {
		if (VERS[vi].file < 0x14020005) continue;
		for (int k = 0; k < p.synPerVersion; k++) {
			const std::string& focus = db.names[(size_t)((k * 37 + vi * 11 + (int)g_cfg.seed * 7) % (int)db.names.size())];
			SynthOpts so;
			so.gen.maxCount = 1 + k % 3;
			uint64_t seed = mix(mix(g_cfg.seed ^ 0xC03, hashStr(focus)), (uint64_t)vi * 100 + (uint64_t)k);
			SynthFile S = synthFile(VERS[vi], focus, seed, so);
			if (!S.ok) continue;
			// use the library's own normal form: the property is about files with valid known blocks plus unknown ones
			NifFile n;
			if (loadNif(n, S.bytes) != 0) continue;
			addFile(fmt("syn:%s:%s:seed=%llu", VERS[vi].n, focus.c_str(), (unsigned long long)seed), saveNif(n, true));
		}
	}
	for (int i = 0; i < p.apiModels; i++) {
		ApiOpts ao;
		ao.version = (const char*[]){"FO3", "SK", "SSE", "FO4", "FO76"}[i % 5];
		ao.segments = true;
		ao.portedTangentBlock = i % 2 == 0;
		ApiModel m = buildApiModel(mix(g_cfg.seed, 0xC03A00 + (uint64_t)i), i, &ao);
		if (m.ok) addFile("api:" + m.desc, m.bytes);
	}
	// FO3 models whose shapes carry a NiTexturingProperty with source textures: their file names are string-table entries that
	// the loader's texture path clean-up rewrites in memory (the only load-time edit of string-table content)
	for (int i = 0; i < (g_cfg.tier ? 40 : 6); i++) {
		Rng rng(mix(g_cfg.seed, 0xC03D00 + (uint64_t)i));
		static const char* DIRTY[] = {"Data\\Textures\\Landscape\\Rock01.dds", "textures/armor//iron\\/cuirass.dds", "\\textures\\x.dds", "plain.dds", "  textures\\padded.dds ", "C:\\game\\data\\textures\\abs.dds", "textures\\clean.dds", "TEXTURES\\Upper.DDS"};
		NifFile nif;
		nif.Create(toNiVersion(*findVer("FO3")));
		std::vector<Vector3> V{{0, 0, 0}, {1, 0, 0}, {0, 1, 0}};
		std::vector<Triangle> T{{0, 1, 2}};
		std::vector<Vector2> UV{{0, 0}, {1, 0}, {0, 1}};
		int nshapes = 1 + (int)rng.below(2);
		for (int k = 0; k < nshapes; k++) {
			std::string name = "tex" + std::to_string(k);
			auto sh = nif.CreateShapeFromData(name, &V, &T, &UV);
			if (!sh) break;
			if (rng.coin()) nif.DeleteShader(sh);
			sh = nif.FindBlockByName<NiShape>(name);
			auto tp = std::make_unique<NiTexturingProperty>();
			tp->textureCount = 12;
			bool* has[4] = {&tp->hasBaseTex, &tp->hasDarkTex, &tp->hasDetailTex, &tp->hasGlowTex};
			TexDesc* td[4] = {&tp->baseTex, &tp->darkTex, &tp->detailTex, &tp->glowTex};
			int nt = 1 + (int)rng.below(4);
			for (int q = 0; q < nt; q++) {
				auto st = std::make_unique<NiSourceTexture>();
				st->fileName.get() = DIRTY[rng.below(8)];
				*has[q] = true;
				td[q]->sourceRef.index = nif.GetHeader().AddBlock(std::move(st));
			}
			uint32_t id = nif.GetHeader().AddBlock(std::move(tp));
			sh = nif.FindBlockByName<NiShape>(name);
			sh->propertyRefs.AddBlockRef(id);
		}
		auto ed = std::make_unique<NiStringExtraData>();
		ed->name.get() = "Prn";
		ed->stringData.get() = "Bip01 Head";
		nif.AssignExtraData(nif.GetRootNode(), std::move(ed));
		addFile(fmt("api-texturing:FO3:%d", i), saveNif(nif, true));
	}
	// boundary size: unknown blocks whose payload is empty (appended behind the last block: only the header tables change), alone and
	// together with a re-labelled type, plus a header string that only such a block could be using
	for (size_t fi = 0; fi < g_files.size(); fi++) {
		g_cases.push_back({fi, 0, 1});
		if (fi % 3 == 0) g_cases.push_back({fi, 0, 2});
		if (fi % 4 == 1) g_cases.push_back({fi, 1ull << (fi % g_files[fi].h.types.size()), 1});
	}
	for (size_t fi = 0; fi < g_files.size(); fi++) {
		size_t nt = g_files[fi].h.types.size();
		if ((int)nt <= p.exhaustiveUpTo)
			for (uint64_t m = 1; m < (1ull << nt); m++) g_cases.push_back({fi, m});
		else {
			Rng rng(mix(g_cfg.seed, 0xC03B00 + fi));
			for (size_t t = 0; t < nt && (int)t < p.randomPerFile; t++) g_cases.push_back({fi, 1ull << ((t * 7 + fi) % nt)});   // singletons first
			g_cases.push_back({fi, (nt >= 64 ? ~0ull : (1ull << nt) - 1)});                                                    // everything unknown
			for (int k = 0; k < p.randomPerFile; k++) {
				uint64_t m = 0;
				int dens = 2 + (int)rng.below(4);
				for (size_t t = 0; t < nt; t++)
					if (rng.below((uint32_t)dens) == 0) m |= 1ull << t;
				if (m) g_cases.push_back({fi, m});
			}
		}
	}
}

void run(size_t idx) {
	const Case& c = g_cases[idx];
	const Entry& e = g_files[c.file];
	indep::Header mod = e.h;
	std::string relabelled;
	for (size_t t = 0; t < mod.types.size(); t++)
		if (c.mask & (1ull << t)) { relabelled += mod.types[t] + ","; mod.types[t] = "Xq" + mod.types[t]; }
	if (c.emptyExtra) {
		uint16_t ti = (uint16_t)mod.types.size();
		mod.types.push_back("XqEmptyMarker");
		for (int k = 0; k < c.emptyExtra; k++) { mod.typeIndex.push_back(ti); mod.sizes.push_back(0); mod.numBlocks++; }
		if (mod.hasStrings) { mod.strings.push_back("only an opaque block could be using this string"); mod.maxStringLen = std::max<uint32_t>(mod.maxStringLen, (uint32_t)mod.strings.back().size()); }
		relabelled += fmt("+%d empty unknown block(s),", c.emptyExtra);
	}
	std::string in = indep::withHeader(e.bytes, e.h, mod);
	indep::Header hin = indep::parse(in);
	R_caseDesc(e.name + " unknown={" + relabelled + "}" + (idx % 4 ? std::string(" route ") + std::to_string(idx % 4) : ""));
	// route by which the model reaches the object that is saved (rotating): loaded into a fresh object; loaded into an object that has held
	// another model; copy-constructed from the loaded object; assigned over an object that holds another model
	int route = (int)(idx % 4);
	static const char* ROUTE[] = {"", " [loaded into a used object]", " [copy-constructed]", " [assigned over a used object]"};
	for (int mode = 0; mode < 2; mode++) {
		bool raw = mode == 0;
		R_eval();
		NifFile n0, other;
		Rng hr(mix(g_cfg.seed, 0xC03E00 + idx));
		R_phase("load");
		if (route == 1) useObject(n0, hr);
		int rc = loadNif(n0, in);
		std::unique_ptr<NifFile> cpy;
		if (rc == 0 && route == 2) cpy = std::make_unique<NifFile>(n0);
		if (rc == 0 && route == 3) { useObject(other, hr); other = n0; }
		NifFile& n = route == 2 && cpy ? *cpy : route == 3 ? other : n0;
		std::string vclass = hin.ok ? fmt("stream%u", hin.stream) : "?";
		if (rc != 0) { R_viol("load-rejected", vclass, e.name + fmt(": file with re-labelled types {%s} is rejected (rc=%d)", relabelled.c_str(), rc)); return; }
		if (!n.HasUnknown()) { R_viol("has-unknown-flag", vclass, e.name + ": HasUnknown() is false although types {" + relabelled + "} are unknown"); }
		std::unique_ptr<NifFile> fwdCopy;
		if (idx % 5 == 2) fwdCopy = std::make_unique<NifFile>(n);
		R_phase(raw ? "save:raw" : "save:default");
		std::string out = saveNif(n, raw);
		indep::Header ho = indep::parse(out);
		std::string mns = std::string(raw ? "raw" : "default") + ROUTE[route];
		const char* mn = mns.c_str();
		if (!ho.ok || !ho.hasSizes || ho.blocksEnd + 8 != out.size()) { R_viol("output-unparsable", mn, e.name + " {" + relabelled + "}: output header tables do not describe the file"); continue; }
		if (ho.numBlocks != hin.numBlocks) { R_viol("block-count", mn, e.name + fmt(" {%s}: %u blocks in, %u out", relabelled.c_str(), hin.numBlocks, ho.numBlocks)); continue; }
		bool bad = false;
		for (size_t i = 0; i < hin.numBlocks && !bad; i++) {
			if (ho.typeOf(i) != hin.typeOf(i)) { R_viol("block-order-or-type", mn, e.name + fmt(" {%s}: block %zu is %s in the input and %s in the output", relabelled.c_str(), i, hin.typeOf(i).c_str(), ho.typeOf(i).c_str())); bad = true; break; }
			bool unk = hin.typeIndex[i] < 64 ? ((c.mask >> hin.typeIndex[i]) & 1) : false;
			if (c.emptyExtra && hin.typeOf(i) == "XqEmptyMarker") unk = true;
			if (!unk) continue;
			R_stat("unknown_blocks_compared");
			if (ho.sizes[i] != hin.sizes[i]) { R_viol("unknown-size", mn, e.name + fmt(" {%s}: unknown block %zu (%s) declared %u bytes, output declares %u", relabelled.c_str(), i, hin.typeOf(i).c_str(), hin.sizes[i], ho.sizes[i])); bad = true; break; }
			if (out.compare(ho.blockStart[i], ho.sizes[i], in, hin.blockStart[i], hin.sizes[i]) != 0) {
				R_viol("unknown-payload", mn, e.name + fmt(" {%s}: payload of unknown block %zu (%s) changed", relabelled.c_str(), i, hin.typeOf(i).c_str()));
				bad = true;
			}
		}
		if (bad) continue;
		if (ho.strings.size() < hin.strings.size() || !std::equal(hin.strings.begin(), hin.strings.end(), ho.strings.begin())) {
			size_t k = 0;
			while (k < hin.strings.size() && k < ho.strings.size() && hin.strings[k] == ho.strings[k]) k++;
			R_viol("string-table-prefix", mn, e.name + fmt(" {%s}: input string %zu '%s' is '%s' in the output (table %zu -> %zu entries)", relabelled.c_str(), k, k < hin.strings.size() ? hin.strings[k].c_str() : "",
															   k < ho.strings.size() ? ho.strings[k].c_str() : "<missing>", hin.strings.size(), ho.strings.size()));
			continue;
		}
		if (fwdCopy) {
			// the same model written to a stream that cannot seek (pipe, socket, compressing filter): the writer cannot go back to the size
			// table, so it shows what the header holds at the time it is written. For the opaque blocks that is the declared size of the
			// input; everything outside the size table is the same file. (Entries of known blocks are not judged here.)
			R_phase("save:forward-only-stream");
			struct FwdBuf : std::streambuf {
				std::string data;
				int_type overflow(int_type ch) override { if (ch != traits_type::eof()) data.push_back((char)ch); return ch; }
				std::streamsize xsputn(const char* p, std::streamsize k) override { data.append(p, (size_t)k); return k; }
			} fb;
			std::ostream fs(&fb);
			NifSaveOptions o;
			if (raw) { o.optimize = false; o.sortBlocks = false; }
			fwdCopy->Save(fs, o);
			const std::string& f = fb.data;
			R_eval();
			R_stat("models_written_to_a_forward_only_stream");
			size_t t0 = ho.sizeTablePos, t1 = ho.sizeTablePos + 4 * (size_t)ho.numBlocks;
			if (f.size() != out.size() || f.compare(0, t0, out, 0, t0) != 0 || f.compare(t1, std::string::npos, out, t1, std::string::npos) != 0)
				R_viol("forward-only-stream", std::string(mn) + "/file-differs", e.name + fmt(" {%s}: written to a stream that cannot seek the file differs from the seekable one outside the size table (%zu vs %zu bytes)", relabelled.c_str(), f.size(), out.size()));
			else
				for (size_t i = 0; i < hin.numBlocks; i++) {
					bool unk = hin.typeIndex[i] < 64 ? ((c.mask >> hin.typeIndex[i]) & 1) : false;
					if (c.emptyExtra && hin.typeOf(i) == "XqEmptyMarker") unk = true;
					if (!unk) continue;
					uint32_t declared = 0;
					memcpy(&declared, f.data() + t0 + 4 * i, 4);
					R_stat("unknown_blocks_compared");
					if (declared != hin.sizes[i]) { R_viol("forward-only-stream", std::string(mn) + "/unknown-size", e.name + fmt(" {%s}: written to a stream that cannot seek, unknown block %zu (%s) declares %u bytes, the input declared %u", relabelled.c_str(), i, hin.typeOf(i).c_str(), declared, hin.sizes[i])); break; }
				}
		}
		R_cover(fmt("%zu/%llx/%d/%d", c.file, (unsigned long long)c.mask, mode, c.emptyExtra));
	}
	if (idx % 997 == 0) R_sample(fmt("{\"file\":\"%s\",\"types\":%zu,\"relabelled\":\"%s\",\"blocks\":%u}", jesc(e.name).c_str(), e.h.types.size(), jesc(relabelled).c_str(), e.h.numBlocks));
}

MonReg reg({"C03", "exploration",
			"files with a size table (20.2.0.5+): real samples, normal forms of synthesised files (FO3..SF, rotating focus types), API-built models and FO3 models whose NiSourceTexture file names the loader's path clean-up rewrites. The model reaches the saved object by a rotating route: fresh load, load into a used object, copy construction, assignment over a used object; a fifth of the cases is also written to a stream that cannot seek (declared sizes of the opaque blocks and every byte outside the size table as in the seekable file). An independent header writer renames a "
			"set of type-table entries to names the library does not know; every non-empty subset when the table has <= 6 (quick) / 9 (thorough) entries, otherwise every singleton, the full "
			"set and seeded random subsets. Oracle on the raw-saved and default-saved output, parsed by the independent reader: same block count, same type name at every index, identical "
			"declared size and payload bytes for every re-labelled block, HasUnknown() set, input string table is a prefix of the output's. Non-trivial = subset that passes all comparisons.",
			[] { return g_cases.size(); }, run, 40, 120.0, false, false, init});
} // namespace
