// Input sources shared by the monitors: S-mut (structure preserving float mutation of real files)
// and S-api (models built through the public API).
#pragma once
#include "common.hpp"

namespace vf {

// Re-reads `bytes` through the library with a streambuf that passes the real bytes but replaces the
// value of float / half / float-vector fields announced by the typed hook.  Returns "" when the
// file does not load.  Layout-gating values (0, +-FLT_MAX, inf, NaN) are kept.
std::string mutateFloats(const std::string& bytes, uint64_t seed, long* changed = nullptr);

struct Mesh {
	std::vector<Vector3> verts;
	std::vector<Triangle> tris;
	std::vector<Vector2> uvs;
	std::vector<Vector3> normals;
};
// random mesh: distinct non-degenerate triangles; when everyVertexUsed, each vertex is a corner of some triangle
Mesh randomMesh(Rng& rng, int nv, int nt, bool everyVertexUsed = true);

struct ApiOpts {
	const char* version = nullptr;   // one of OB FO3 SK SSE FO4 FO76 or nullptr = by variant
	int shapes = -1;                 // -1 = random 1..3
	int nv = -1, nt = -1;            // -1 = random
	int skinned = -1;                // -1 random, 0 no, 1 yes
	int bones = -1;
	int maxInfluences = 4;           // per vertex (pairwise distinct weights)
	bool colors = false;
	bool extras = true;              // extra nodes / extra data / loose blocks
	bool distinctWeights = true;
	bool everyVertexUsed = true;
	bool segments = false;           // FO4/FO76: random segmentation
	bool partitions = false;         // LE/SSE/FO3: random partition assignment
	bool usedObject = false;         // the NifFile object has held another file before Create() (see useObject)
	bool junkWeights = false;        // SetShapeBoneWeights also receives entries that are no weights (NaN, negative, zero, below the 1e-4 cut): the setter has to drop them
	bool portedTangentBlock = false; // non-Oblivion versions: shapes carry an Oblivion-style "Tangent space (binormal & tangent vectors)" NiBinaryExtraData (meshes ported from Oblivion keep it)
	bool collisionVolumes = false;   // every shape gets a NiCollisionData with a bounding volume of a rotating kind (sphere, box, capsule, half-space, union of two)
	bool wideColors = false;         // vertex colour channels outside [0,1] as well (floats in LE files are not range checked; byte storage clamps)
	bool foreignBinaryExtraFirst = false;   // every shape gets a NiBinaryExtraData of another name ("Editor marker data") before any tangent block exists, so it is listed in front of it
	bool tangents = false;           // CalcTangentsForShape on every shape that has normals and UVs (OB: creates the tangent-space extra data on save)
	bool texturing = false;          // OB/FO3: shapes also get a NiTexturingProperty with source textures in a random subset of the ten slots
	bool modelSpace = false;         // SK/SSE: shaders use model-space normals (cloning / conversion drop normals and tangents then)
};

struct ApiModel {
	bool ok = false;
	std::string desc;
	std::string verName;
	std::unique_ptr<NifFile> nif;    // the in-memory model
	std::string bytes;               // default-saved bytes of a *copy* (the model itself is untouched by saving)
	std::vector<std::string> shapeNames;
	std::vector<Mesh> meshes;        // what was passed to CreateShapeFromData, per shape
	std::vector<int> boneCounts;
	// per shape: weights[v] = list of (bone, weight) as given to the API (already top-4 / normalised where the API needs it)
	std::vector<std::vector<std::vector<std::pair<int, float>>>> weights;
};
ApiModel buildApiModel(uint64_t seed, int variant, const ApiOpts* opts = nullptr);

} // namespace vf

namespace vf {
// Applies `n` random public-API edits to a model (renames, shape/vertex/block deletion, added nodes and extra data,
// texture changes, cloning, explicit sort/prune).  Returns a textual log of the operations.
// Brings a NifFile object into a *used* state before it receives the model under test (objects are reused by applications: Load after Load,
// Create after Load, assignment over a loaded file): a loaded real sample, a loaded sample one of whose block types is unknown to the
// library, or a created model with a few blocks.  Returns a description of what was put into the object.
std::string useObject(NifFile& n, Rng& rng);
// a real sample (with size table) one of whose block types is re-labelled to a name the library does not know
std::string sampleWithUnknownType(Rng& rng, std::string* desc = nullptr);

// Reorders the vertex map of every skin partition by a seeded permutation and carries the per-vertex partition arrays (weights, bone slots)
// and, where the partition's faces index the map (OB/FO3/SK), its triangles and strips along: the same partitions, written the way game files
// written by other tools have them (vertex maps are not sorted there).  Returns the number of partitions changed.
int permutePartitionVertexMaps(NifFile& nif, Rng& rng);

// Turns the NiTriShape `shape` of an OB / FO3 / SK model into a NiTriStrips that encodes exactly the same oriented triangles, one strip per
// triangle, written in one of three ways: a b c | a a c b (a leading degenerate: the real triangle sits at an odd strip position) | a b c c.
// Returns the new shape (nullptr when `shape` is not a NiTriShape with data).
NiShape* toStripsSameTriangles(NifFile& nif, NiShape* shape, Rng& rng);

// Skyrim SE partitions store their triangles twice (a face list that may be absent, and the "triangles copy"): clears the optional face list
// of every SSE partition (Has Faces = 0), as files written by other tools have it.  Returns the number of partitions changed; the model has to
// be saved and loaded again to obtain the state a reader of such a file is in.
int dropPartitionFaces(NifFile& nif);
// Adds a NiLines shape (line loop over 4..9 points, NiLinesData, no triangles, no shader) below the root, stored behind the existing blocks.
NiShape* addLinesShape(NifFile& nif, const std::string& name, Rng& rng);
// Rotates the corners of the triangles stored in mapped-index partitions (OB/FO3/SK) by a random amount each: the same oriented
// triangles, but not in the smallest-index-first order the library's own rebuild writes (game assets and other exporters do not
// normalise). Cached true triangles / labels are dropped. Returns the number of partitions changed.
int rotatePartitionTriangles(NifFile& nif, Rng& rng);
// Stores the faces of every mapped-index partition (OB/FO3/SK) as triangle strips instead of a triangle list, the way older exporters
// write them: per triangle a strip with or without a degenerate lead-in/tail, or two triangles stitched by degenerates. The counter
// follows the file convention (sum of strip length - 2, degenerates included). Same triangles, other encoding. Returns partitions changed.
int stripPartitions(NifFile& nif, Rng& rng);

// attaches a NiTexturingProperty whose slots (a seeded subset of the ten, never empty) name fresh NiSourceTexture blocks; OB / FO3 models
void addTexturingProperty(NifFile& nif, NiShape* shape, Rng& rng, const std::vector<std::string>& paths);
std::string applyRandomEdits(NifFile& nif, Rng& rng, int n);
} // namespace vf
