// Pipeline shared by the fault-enumeration monitors (C15 corrupted references, C16 truncation):
// load -> query battery -> copy -> raw save of the copy -> default save -> reload of the output -> destroy,
// executed on the real library under ASan/UBSan/libstdc++ assertions inside a fork-isolated, CPU-limited child.
#pragma once
#include "battery.hpp"
#include "oracles.hpp"

namespace vf {

struct FaultResult { int loadRc = -1; int reloadRc = -1; bool ran = false; size_t outBytes = 0; };

// Returns after running every phase; any crash/abort/hang kills the child and is attributed by the runner to the
// journalled phase.  Exceptions are caught per fault so that the fault is named in the report.
inline FaultResult faultPipeline(const std::string& bytes, const std::string& what, bool loadMustSucceed, bool reloadMustSucceed) {
	FaultResult fr;
	std::string phase = "load";
	try {
		R_phase("load");
		auto n = std::make_unique<NifFile>();
		fr.loadRc = loadNif(*n, bytes);
		if (fr.loadRc != 0) {
			if (loadMustSucceed) { R_viol("load-rejected", "load", what + fmt(": Load returned %d for a file whose only fault is a reference value", fr.loadRc)); return fr; }
			// a rejected prefix: the (cleared) model must still be usable
			phase = "query-after-failed-load"; R_phase(phase.c_str());
			runBattery(*n, true);
			phase = "save-after-failed-load"; R_phase(phase.c_str());
			saveNif(*n, true);
			return fr;
		}
		fr.ran = true;
		phase = "query"; R_phase("query");
		runBattery(*n, true);
		phase = "copy"; R_phase("copy");
		auto cp = std::make_unique<NifFile>(*n);
		phase = "save:raw"; R_phase("save:raw");
		std::string raw = saveNif(*cp, true);
		phase = "query-copy"; R_phase("query-copy");
		runBattery(*cp, false);
		phase = "save:default"; R_phase("save:default");
		std::string out = saveNif(*n, false);
		fr.outBytes = out.size();
		phase = "reload"; R_phase("reload");
		auto r = std::make_unique<NifFile>();
		fr.reloadRc = loadNif(*r, out);
		if (fr.reloadRc != 0 && reloadMustSucceed) R_viol("output-not-loadable", "reload", what + fmt(": the default-saved output does not load (rc=%d)", fr.reloadRc));
		phase = "destroy"; R_phase("destroy");
		r.reset();
		cp.reset();
		n.reset();
	}
	catch (const std::exception& e) {
		R_viol("exception", phase + "/" + demangle(typeid(e).name()), what + ": escaping exception in phase " + phase + ": " + e.what());
	}
	return fr;
}

} // namespace vf
