// nifmon: one binary, one monitor per property.
//   nifmon <Cxx> [--seed N] [--tier quick|thorough] [--shard i/n] [--out file] [--case k] [--repo dir] [--verif dir]
#include "common.hpp"
#include <cstdlib>

int main(int argc, char** argv) {
	using namespace vf;
	if (argc < 2) { fprintf(stderr, "usage: nifmon <Cxx> [options]\n"); return 2; }
	std::string id = argv[1];
	if (const char* e = getenv("NIFLY_REPO")) g_cfg.repo = e;
	if (const char* e = getenv("NIFLY_VERIF")) g_cfg.verif = e;
	for (int i = 2; i < argc; i++) {
		std::string a = argv[i];
		auto next = [&]() -> std::string { return i + 1 < argc ? argv[++i] : ""; };
		if (a == "--seed") g_cfg.seed = strtoull(next().c_str(), nullptr, 10);
		else if (a == "--tier") g_cfg.tier = (next() == "thorough") ? 1 : 0;
		else if (a == "--shard") { std::string s = next(); sscanf(s.c_str(), "%d/%d", &g_cfg.shard, &g_cfg.nshards); }
		else if (a == "--out") g_cfg.outPath = next();
		else if (a == "--case") g_cfg.onlyCase = atol(next().c_str());
		else if (a == "--repo") g_cfg.repo = next();
		else if (a == "--verif") g_cfg.verif = next();
		else if (a == "-v") g_cfg.verbose = true;
		else { fprintf(stderr, "nifmon: unknown option %s\n", a.c_str()); return 2; }
	}
	if (g_cfg.nshards < 1 || g_cfg.shard < 0 || g_cfg.shard >= g_cfg.nshards) { fprintf(stderr, "nifmon: bad shard\n"); return 2; }
	return runMonitor(id);
}
