// C10 — skin partitions always cover the shape's triangles exactly once.
#include "skinmodel.hpp"
#include "sources.hpp"

namespace {
using namespace vf;

static const char* VN[] = {"OB", "FO3", "SK", "SSE"};

void report(const std::vector<std::string>& errs, const std::string& what, const char* after) {
	for (auto& e : errs) R_viol("partition-invariant", std::string(after) + "/" + invClass(e), what + " after " + after + ": " + e);
}

bool checkNow(NifFile& nif, NiShape* s, bool cover, const std::string& what, const char* after) {
	R_eval();
	long tc = 0;
	bool rebuilt = std::string(after).find("UpdateSkinPartitions") != std::string::npos && std::string(after).find("reload") == std::string::npos;
	auto errs = checkPartitions(nif, s, cover, &tc, true, rebuilt);
	R_stat("triangles_checked", tc);
	report(errs, what, after);
	return errs.empty();
}

void checkReload(NifFile& nif, const std::string& what, const char* after) {
	NifFile cp(nif);
	std::string bytes = saveNif(cp, false);
	NifFile re;
	if (loadNif(re, bytes) != 0) { R_viol("reload", after, what + ": model does not reload after " + after); return; }
	for (auto s : re.GetShapes())
		if (s->IsSkinned() && re.GetHeader().GetBlock<NiSkinInstance>(s->SkinInstanceRef())) checkNow(re, s, true, what, (std::string(after) + "+save+reload").c_str());
}

void apiCase(size_t idx) {
	uint64_t seed = mix(g_cfg.seed, 0xC10000 + idx);
	Rng rng(seed);
	ApiOpts ao;
	ao.version = VN[idx % 4];
	ao.shapes = 1;
	ao.skinned = 1;
	ao.extras = false;
	ao.maxInfluences = (int)(1 + idx % 8);
	ao.bones = (idx % 5 == 0) ? 60 + (int)rng.below(60) : 1 + (int)rng.below(30);
	ao.nv = (idx % 7 == 0) ? 150 + (int)rng.below(200) : 3 + (int)rng.below(50);
	ao.nt = 1 + (int)rng.below(120);
	ao.distinctWeights = idx % 3 != 0;
	ao.usedObject = idx % 4 == 3;
	ao.junkWeights = idx % 3 == 2;
	ApiModel m = buildApiModel(seed, (int)idx, &ao);
	if (!m.ok) return;
	NifFile& nif = *m.nif;
	std::string what = "api:" + m.desc;
	R_caseDesc(what);
	NiShape* s = nif.GetShapes().at(0);
	// buildApiModel has called CreateSkinning + weights + UpdateSkinPartitions
	if (!checkNow(nif, s, true, what, "CreateSkinning+UpdateSkinPartitions")) return;
	if (idx % 5 == 2 && permutePartitionVertexMaps(nif, rng) > 0) {
		// the same partitions with their vertex maps in arbitrary order (as other tools write them): still valid, and every later operation starts from them
		what += " [partition vertex maps permuted]";
		R_caseDesc(what);
		if (!checkNow(nif, s, true, what, "permuted-vertex-maps")) return;
		checkReload(nif, what, "permuted-vertex-maps");
	}
	if (idx % 6 == 4 && stripPartitions(nif, rng) > 0) {
		// the same partitions with their faces stored as triangle strips (degenerate stitching included), as older exporters write
		// them: a query triangulates them; what is saved afterwards must still be exactly the shape's triangles
		what += " [partition faces stored as strips]";
		R_caseDesc(what);
		R_stat("models_with_strip_partitions");
		if (rng.coin(2)) checkReload(nif, what, "strip-partitions");   // written as strips, untouched
		NiVector<BSDismemberSkinInstance::PartitionInfo> pinf0;
		std::vector<int> tp0;
		R_phase("GetShapePartitions(strips)");
		if (!nif.GetShapePartitions(s, pinf0, tp0)) { R_viol("api", "GetShapePartitions", what + ": GetShapePartitions failed on a skinned shape"); return; }
		checkReload(nif, what, "strip-partitions+GetShapePartitions");
		if (!checkNow(nif, s, true, what, "strip-partitions+GetShapePartitions")) return;
	}
	std::vector<Triangle> tris;
	s->GetTriangles(tris);
	// re-assignment of triangles to partitions, including unassigned (-1) and ids past the end
	for (int round = 0; round < 3; round++) {
		NiVector<BSDismemberSkinInstance::PartitionInfo> pinf;
		std::vector<int> tp;
		R_phase("GetShapePartitions");
		if (!nif.GetShapePartitions(s, pinf, tp)) { R_viol("api", "GetShapePartitions", what + ": GetShapePartitions failed on a skinned shape"); return; }
		if (tp.size() != tris.size()) { R_viol("api", "GetShapePartitions/triParts-size", what + fmt(": %zu labels for %zu triangles", tp.size(), tris.size())); return; }
		int np = 1 + (int)rng.below(5);
		NiVector<BSDismemberSkinInstance::PartitionInfo> ninf;
		for (int p = 0; p < np; p++) { BSDismemberSkinInstance::PartitionInfo pi; pi.flags = PF_EDITOR_VISIBLE; pi.partID = (uint16_t)(30 + rng.below(20)); ninf.push_back(pi); }
		int mode = (int)rng.below(5);
		for (auto& x : tp) {
			switch (mode) {
				case 0: x = (int)rng.below((uint32_t)np); break;
				case 1: x = rng.coin(3) ? -1 : (int)rng.below((uint32_t)np); break;             // some unassigned
				case 2: x = rng.coin(4) ? np + (int)rng.below(3) : (int)rng.below((uint32_t)np); break;   // ids past the end
				case 3: x = -1; break;                                                          // everything unassigned
				default: x = 0; break;                                                          // all in one, other partitions empty
			}
		}
		R_phase("SetShapePartitions");
		nif.SetShapePartitions(s, ninf, tp);
		s = nif.GetShapes().at(0);
		std::string w2 = what + fmt(" [round %d: %d partitions, assignment mode %d]", round, np, mode);
		if (round == 0 && idx % 2 == 1 && mode != 3) {
			// saved right after the assignment, without a rebuild: the writer has to complete the partitions' vertex maps and
			// triangle lists itself; judged on what concerns triangles (per-vertex weight arrays are the rebuild's job)
			R_phase("save-without-rebuild");
			NifFile cp(nif), re;
			if (loadNif(re, saveNif(cp, true)) != 0) { R_viol("reload", "SetShapePartitions+save", w2 + ": model does not reload when saved right after SetShapePartitions"); return; }
			for (auto rs : re.GetShapes()) {
				if (!rs->IsSkinned() || !re.GetHeader().GetBlock<NiSkinInstance>(rs->SkinInstanceRef())) continue;
				R_eval();
				auto errs = checkPartitions(re, rs, true, nullptr, false);
				for (auto& e : errs) {
					std::string cl = invClass(e);
					if (cl.find("triangle") == std::string::npos && cl.find("vertex-map") == std::string::npos && cl.find("dismember") == std::string::npos) continue;
					R_viol("partition-invariant", "SetShapePartitions+save+reload/" + cl, w2 + " saved right after SetShapePartitions (no rebuild) and reloaded: " + e);
					return;
				}
			}
			R_stat("models_saved_without_rebuild");
		}
		R_phase("UpdateSkinPartitions");
		nif.UpdateSkinPartitions(s);
		if (!checkNow(nif, s, true, w2, "SetShapePartitions+UpdateSkinPartitions")) return;
		if (round == 1) {
			R_phase("RemoveEmptyPartitions");
			nif.RemoveEmptyPartitions(s);
			if (!checkNow(nif, s, true, w2, "RemoveEmptyPartitions")) return;
		}
		if (round == 0 && idx % 2 == 0) checkReload(nif, w2, "SetShapePartitions+UpdateSkinPartitions");
		if (round == 2 && idx % 3 == 1 && s->GetNumVertices() > 6) {
			// a vertex deletion between an assignment and the next rebuild: the partition blocks cache true triangles and the
			// triangle-to-partition list; surviving triangles keep the partition they had, and the rebuild satisfies the invariants
			NiVector<BSDismemberSkinInstance::PartitionInfo> pb;
			std::vector<int> tpB;
			if (!nif.GetShapePartitions(s, pb, tpB)) return;
			std::vector<Triangle> before;
			s->GetTriangles(before);
			uint16_t nv = s->GetNumVertices();
			std::vector<uint16_t> del;
			std::vector<char> gone(nv, 0);
			for (uint16_t v = 0; v < nv; v++)
				if (rng.coin(7)) { del.push_back(v); gone[v] = 1; }
			if (!del.empty() && del.size() + 3 < nv && tpB.size() == before.size()) {
				R_phase("DeleteVertsForShape");
				nif.DeleteVertsForShape(s, del);
				s = nif.GetShapes().at(0);
				std::vector<int> want;
				for (size_t i = 0; i < before.size(); i++)
					if (!gone[before[i].p1] && !gone[before[i].p2] && !gone[before[i].p3]) want.push_back(tpB[i]);
				s->GetTriangles(tris);
				R_eval();
				if (tris.size() == want.size() && !tris.empty()) {
					// right after the deletion: indices valid, every triangle in one partition, cached true triangles agree with the
					// mapped ones (a vertex map may keep vertices whose triangles went away, and emptied partitions may go: no
					// statement about partition numbers)
					{
						auto errs = checkPartitions(nif, s, true, nullptr, false);
						if (!errs.empty()) { report(errs, w2 + fmt(" [%zu vertices deleted]", del.size()), "DeleteVertsForShape"); return; }
					}
					R_phase("UpdateSkinPartitions");
					nif.UpdateSkinPartitions(s);
					if (!checkNow(nif, s, true, w2, "DeleteVertsForShape+UpdateSkinPartitions")) return;
					R_stat("deletions_between_assignment_and_rebuild");
				}
			}
		}
	}
	// delete partitions, then the documented recovery: read the assignment, write it back, rebuild
	{
		auto si = nif.GetHeader().GetBlock<NiSkinInstance>(s->SkinInstanceRef());
		auto sp = nif.GetHeader().GetBlock(si->skinPartitionRef);
		if (sp->partitions.size() >= 2) {
			std::vector<uint32_t> del{(uint32_t)rng.below((uint32_t)sp->partitions.size())};
			R_phase("DeletePartitions");
			nif.DeletePartitions(s, del);
			if (!checkNow(nif, s, false, what, "DeletePartitions")) return;
			NiVector<BSDismemberSkinInstance::PartitionInfo> pinf;
			std::vector<int> tp;
			nif.GetShapePartitions(s, pinf, tp);
			nif.SetShapePartitions(s, pinf, tp);
			nif.UpdateSkinPartitions(s);
			if (!checkNow(nif, s, true, what, "DeletePartitions+Get/SetShapePartitions+UpdateSkinPartitions")) return;
		}
	}
	R_phase("SetDefaultPartition");
	nif.SetDefaultPartition(s);
	nif.UpdateSkinPartitions(s);
	if (!checkNow(nif, s, true, what, "SetDefaultPartition+UpdateSkinPartitions")) return;
	if ((idx / 4) % 2 == 0) {
		// a new triangle list of another length on the skinned shape, then the documented rebuild: whatever the partition block cached
		// about the old list (labels per triangle, true triangles) must not survive into the new partitions
		NiVector<BSDismemberSkinInstance::PartitionInfo> pinf;
		std::vector<int> tp;
		nif.GetShapePartitions(s, pinf, tp);   // fills the caches
		std::vector<Triangle> t2;
		s->GetTriangles(t2);
		uint16_t nv = s->GetNumVertices();
		int kind = (int)rng.below(3);
		if (kind != 1 && t2.size() > 2) t2.resize(t2.size() - 1 - rng.below((uint32_t)t2.size() / 2));   // fewer
		if (kind != 0 && nv >= 3)                                                                       // more (or other ones)
			for (int k = 0, add = 1 + (int)rng.below(6); k < add; k++) {
				uint16_t a = (uint16_t)rng.below(nv), b = (uint16_t)((a + 1 + rng.below(nv - 1)) % nv), c = a;
				while (c == a || c == b) c = (uint16_t)rng.below(nv);
				t2.push_back(Triangle(a, b, c));
			}
		R_phase("SetTriangles");
		s->SetTriangles(t2);
		R_phase("UpdateSkinPartitions(after SetTriangles)");
		nif.UpdateSkinPartitions(s);
		s = nif.GetShapes().at(0);
		std::string w3 = what + fmt(" [new triangle list of %zu triangles]", t2.size());
		if (!checkNow(nif, s, true, w3, "SetTriangles+UpdateSkinPartitions")) return;
		NiVector<BSDismemberSkinInstance::PartitionInfo> p2;
		std::vector<int> tp2;
		std::vector<Triangle> now;
		s->GetTriangles(now);
		if (!nif.GetShapePartitions(s, p2, tp2) || tp2.size() != now.size()) { R_viol("api", "GetShapePartitions/triParts-size", w3 + fmt(": %zu labels for %zu triangles after SetTriangles+UpdateSkinPartitions", tp2.size(), now.size())); return; }
		checkReload(nif, w3, "SetTriangles+UpdateSkinPartitions");
		R_stat("triangle_lists_replaced_before_a_rebuild");
	}
	checkReload(nif, what, "final");
	R_cover(fmt("api/%s/%016llx", ao.version, (unsigned long long)seed));
	if (idx % 41 == 0) R_sample(fmt("{\"source\":\"api\",\"model\":\"%s\",\"max_influences\":%d}", jesc(m.desc).c_str(), ao.maxInfluences));
}

void realCase(size_t idx) {
	auto& smp = realSamples()[idx];
	NifFile nif;
	if (loadNif(nif, smp.bytes) != 0) return;
	auto& ver = nif.GetHeader().GetVersion();
	if (!(ver.IsOB() || ver.IsFO3() || ver.IsSK() || ver.IsSSE())) return;
	std::string what = "real:" + smp.name;
	R_caseDesc(what);
	bool any = false;
	for (auto s : nif.GetShapes()) {
		if (!nif.GetHeader().GetBlock<NiSkinInstance>(s->SkinInstanceRef())) continue;
		auto si = nif.GetHeader().GetBlock<NiSkinInstance>(s->SkinInstanceRef());
		if (!nif.GetHeader().GetBlock(si->skinPartitionRef) || !nif.GetHeader().GetBlock(si->dataRef)) continue;
		any = true;
		std::string w = what + " shape " + s->name.get();
		R_phase("UpdateSkinPartitions");
		nif.UpdateSkinPartitions(s);
		if (!checkNow(nif, s, true, w, "UpdateSkinPartitions")) return;
	}
	if (any) { checkReload(nif, what, "UpdateSkinPartitions"); R_cover("real/" + smp.name); }
}

size_t nApi() { return g_cfg.tier ? 24000 : 2400; }

void run(size_t idx) {
	if (idx < realSamples().size()) realCase(idx);
	else apiCase(idx - realSamples().size());
}

MonReg reg({"C10", "exploration",
			"skinned shapes built through the API in OB, FO3, SK and SSE (3..350 vertices, 1..120 triangles, 1..120 bones, 1..8 influences per vertex, tied and distinct weights) and "
			"the skinned shapes of the real samples. Operations: CreateSkinning+UpdateSkinPartitions, three rounds of GetShapePartitions -> SetShapePartitions with random assignments "
			"(in range, partly unassigned -1, ids past the end, all unassigned, all in one) -> UpdateSkinPartitions, RemoveEmptyPartitions, DeletePartitions followed by the "
			"get/set/update recovery, a vertex deletion between an assignment and the next rebuild, SetDefaultPartition, a new triangle list of another length (SetTriangles) followed by the rebuild, and save+reload; one model in six first has its partition faces re-encoded as triangle strips with degenerate stitching (file-convention counter) and is saved untouched and after a GetShapePartitions query. Oracle after each: multiset of partition triangles (rotation-normalised) == shape triangles, vertex map == "
			"sorted set of used vertices, mapped triangles translate back, bone count <= 18 (OB/FO3) / 80 (SSE), weights >= 0 summing to 1 or 0, bone slots and partition bones in range, "
			"counters equal array sizes, dismember list aligned; after a rebuild every partition vertex resolved through the partition's bone table equals the normalised four largest NiSkinData influences. Non-trivial = model that went through all operations.",
			[] { return realSamples().size() + nApi(); }, run, 12, 300.0, false, false, nullptr});
} // namespace
