// enumeration of the synthesised inputs of C08, shared by nifmon (current build) and reftool (reference build)
#pragma once
#include "gen.hpp"

namespace c08 {
using namespace vf;

struct Item { const VerInfo* ver; std::string type; uint64_t seed; SynthOpts opts; std::string id; };

inline int seedsPerPair() { return g_cfg.tier ? 6 : 1; }
inline size_t planSize() { return typeDB().names.size() * nAllVers() * (size_t)seedsPerPair(); }
inline Item planItem(size_t idx) {
	const TypeDB& db = typeDB();
	size_t per = db.names.size() * nAllVers();
	size_t it = idx / per, rest = idx % per;
	Item x;
	x.ver = &verAt(rest / db.names.size());
	x.type = db.names[rest % db.names.size()];
	x.seed = mix(mix(g_cfg.seed ^ 0xC08, hashStr(x.type)), (rest / db.names.size()) * 1000 + it);
	x.opts.gen.maxCount = 1 + (int)((it + rest) % 4);
	x.opts.gen.minCount = (rest % 3 == 1) ? 1 : 0;
	x.opts.gen.boolBias = (int)((it + rest) % 3);
	x.opts.gen.readerLimitStrings = true;
	std::string t = x.type;
	for (auto& c : t) if (c == ':') c = '_';
	x.id = std::string(x.ver->n) + "." + t + "." + std::to_string(it);
	return x;
}
} // namespace c08
