// syntool: writes the synthesised file a monitor names in its case description ("syn:<VER>:<focus>:seed=<n>") to disk.
//   syntool <VER> <focus> <seed> <out.nif> [maxCount [minCount [emptyRefOneIn]]] [--normal-form]
#include "common.hpp"
#include "gen.hpp"
using namespace vf;
int main(int argc, char** argv) {
	if (argc < 5) { fprintf(stderr, "usage: syntool <VER> <focus> <seed> <out.nif> [maxCount [minCount [emptyRefOneIn]]] [--normal-form]\n"); return 2; }
	const VerInfo* v = nullptr;
	v = findVer(argv[1]);
	if (!v) { fprintf(stderr, "unknown version label %s\n", argv[1]); return 2; }
	SynthOpts so;
	bool nf = false;
	std::vector<std::string> pos;
	for (int i = 5; i < argc; i++) { if (std::string(argv[i]) == "--normal-form") nf = true; else pos.push_back(argv[i]); }
	if (pos.size() > 0) so.gen.maxCount = atoi(pos[0].c_str());
	if (pos.size() > 1) so.gen.minCount = atoi(pos[1].c_str());
	if (pos.size() > 2) so.gen.emptyRefOneIn = atoi(pos[2].c_str());
	SynthFile S = synthFile(*v, argv[2], strtoull(argv[3], nullptr, 10), so);
	if (!S.ok) { fprintf(stderr, "not synthesisable\n"); return 1; }
	std::string bytes = S.bytes;
	if (nf) {
		NifFile n;
		if (loadNif(n, bytes) != 0) { fprintf(stderr, "not accepted\n"); return 1; }
		bytes = saveNif(n, true);
	}
	std::ofstream(argv[4], std::ios::binary).write(bytes.data(), (std::streamsize)bytes.size());
	for (size_t i = 0; i < S.types.size(); i++) printf("%zu %s\n", i, S.types[i].c_str());
	return 0;
}
