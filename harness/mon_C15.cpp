// C15 — corrupted block references never crash loading, querying or saving (fault enumeration).
// The byte offset of every reference field comes from the BlockRef hook of the traced raw save of the file's own
// normal form; the field is patched in the bytes (no library code involved) and the patched file goes through
// load -> query battery -> copy -> raw save -> default save -> reload in a fork-isolated, CPU-limited child.
#include "faultpipe.hpp"
#include "sources.hpp"

namespace {
using namespace vf;

struct RefSite { uint32_t block; size_t pos; uint32_t orig; std::string blockType, cls; };
struct Fault { std::vector<std::pair<size_t, uint32_t>> patches; std::string what; };
struct Entry { std::string name; std::string N; uint32_t numBlocks = 0; std::vector<Fault> faults; };
std::vector<Entry> g_files;
std::vector<std::pair<size_t, size_t>> g_cases;
const size_t CHUNK = 24;

struct Plan { size_t perRealFile; size_t perSynFile; int synVersionsPerType; int multi; int apiModels; };
Plan plan() { return g_cfg.tier ? Plan{2400, 400, 14, 60, 40} : Plan{240, 54, 1, 8, 18}; }

const char* KINDS[] = {"empty", "count", "beyond-count", "self", "parent", "root", "in-range-any", "max-1", "other-block-of-the-same-type"};
const int NKINDS = 9;

void buildFaults(Entry& e, const std::vector<RefSite>& sites, const std::vector<int>& parentOf, const std::vector<std::string>& types, size_t budget, int multi, Rng& rng) {
	uint32_t nb = e.numBlocks;
	auto valueFor = [&](const RefSite& s, int kind, Rng& r) -> uint32_t {
		switch (kind) {
			case 0: return 0xFFFFFFFFu;
			case 1: return nb;
			case 2: return nb + 1 + r.below(1000);
			case 3: return s.block;
			case 4: return parentOf[s.block] >= 0 ? (uint32_t)parentOf[s.block] : 0;
			case 5: return 0;
			case 6: return r.below(nb ? nb : 1);
			case 8: {
				// passes every type check of the reader: two blocks of one type exchanged (e.g. a skin instance pointed at the skin
				// data of another shape, whose arrays have other lengths)
				if (s.orig >= types.size()) return s.orig;
				std::vector<uint32_t> c;
				for (uint32_t j = 0; j < types.size(); j++)
					if (j != s.orig && types[j] == types[s.orig]) c.push_back(j);
				return c.empty() ? s.orig : c[r.below((uint32_t)c.size())];
			}
			default: return 0xFFFFFFFEu;
		}
	};
	// strata: (block type, target class).  Every stratum gets every kind before any field is repeated.
	std::map<std::string, std::vector<size_t>> strata;
	for (size_t i = 0; i < sites.size(); i++) strata[sites[i].blockType + "->" + sites[i].cls].push_back(i);
	std::vector<std::pair<size_t, int>> order;
	// strata in a seeded order (a budget cut must not always hit the same block types)
	std::vector<const std::vector<size_t>*> sv;
	for (auto& kv : strata) sv.push_back(&kv.second);
	for (size_t i = sv.size(); i > 1; i--) std::swap(sv[i - 1], sv[rng.below((uint32_t)i)]);
	// a quarter of the budget: the same-type exchange on *every* field of the small strata (its effect depends on which of
	// the two blocks is the larger one, so the first field of a stratum is not representative)
	std::vector<std::pair<size_t, int>> swaps;
	for (auto v : sv)
		if (v->size() <= 8)
			for (size_t j = 1; j < v->size(); j++) swaps.push_back({(*v)[j], 8});
	if (swaps.size() > budget / 4) swaps.resize(budget / 4);
	size_t round = 0;
	bool any = true;
	while (any && order.size() + swaps.size() < budget) {
		any = false;
		for (auto v : sv) {
			if (round >= v->size() && round > 0) continue;
			any = true;
			size_t si = (*v)[round % v->size()];
			for (int k = 0; k < NKINDS; k++) order.push_back({si, k});
		}
		round++;
		if (round > 4000) break;
	}
	if (order.size() + swaps.size() > budget) order.resize(budget - swaps.size());
	order.insert(order.end(), swaps.begin(), swaps.end());
	for (auto& [si, k] : order) {
		const RefSite& s = sites[si];
		uint32_t v = valueFor(s, k, rng);
		if (v == s.orig) continue;
		Fault f;
		f.patches.push_back({s.pos, v});
		f.what = fmt("%s: block %u (%s) ref->%s at file offset %zu: %u -> %u (%s)", e.name.c_str(), s.block, s.blockType.c_str(), s.cls.c_str(), s.pos, s.orig, v, KINDS[k]);
		e.faults.push_back(f);
	}
	// pairs of sibling fields: two reference fields of one block with the same declared target class (entity A / entity B, the two bodies
	// of a constraint, parent / child of a controller link); one is redirected to another existing block, the other made unresolvable.
	// Per group: the first two, the last two and one seeded pair, in both orientations.
	{
		std::map<std::pair<uint32_t, std::string>, std::vector<size_t>> groups;
		for (size_t i = 0; i < sites.size(); i++) groups[{sites[i].block, sites[i].cls}].push_back(i);
		std::vector<Fault> pairs;
		for (auto& kv : groups) {
			auto& g = kv.second;
			if (g.size() < 2) continue;
			std::vector<std::pair<size_t, size_t>> pr{{g[0], g[1]}, {g[g.size() - 2], g[g.size() - 1]}};
			if (g.size() > 3) { size_t a = rng.below((uint32_t)g.size()), b = rng.below((uint32_t)g.size()); if (a != b) pr.push_back({g[a], g[b]}); }
			for (auto& [x, y] : pr)
				for (int orient = 0; orient < 2; orient++) {
					const RefSite& red = sites[orient ? y : x];
					const RefSite& unr = sites[orient ? x : y];
					uint32_t v1 = valueFor(red, rng.coin() ? 6 : 8, rng);   // an arbitrary existing block / another block of the same type
					uint32_t v2 = valueFor(unr, rng.coin() ? 0 : 1, rng);   // empty / the block count
					if (v1 == red.orig) continue;
					Fault f;
					f.patches.push_back({red.pos, v1});
					f.patches.push_back({unr.pos, v2});
					f.what = e.name + fmt(": sibling pair [block %u (%s) ref->%s @%zu: %u -> %u (redirected)][@%zu: %u -> %u (unresolvable)]", red.block, red.blockType.c_str(), red.cls.c_str(), red.pos, red.orig, v1, unr.pos, unr.orig, v2);
					pairs.push_back(f);
				}
		}
		for (size_t i = pairs.size(); i > 1; i--) std::swap(pairs[i - 1], pairs[rng.below((uint32_t)i)]);
		size_t cap = g_cfg.tier ? pairs.size() : std::min<size_t>(pairs.size(), budget / 2);
		for (size_t i = 0; i < cap; i++) e.faults.push_back(pairs[i]);
	}
	for (int m = 0; m < multi && sites.size() >= 2; m++) {
		Fault f;
		int n = 2 + (int)rng.below(2);
		f.what = e.name + ": multi ";
		for (int j = 0; j < n; j++) {
			const RefSite& s = sites[rng.below((uint32_t)sites.size())];
			int k = (int)rng.below(NKINDS);
			uint32_t v = valueFor(s, k, rng);
			f.patches.push_back({s.pos, v});
			f.what += fmt("[block %u (%s) @%zu: %u -> %u (%s)]", s.block, s.blockType.c_str(), s.pos, s.orig, v, KINDS[k]);
		}
		e.faults.push_back(f);
	}
}

bool addFile(const std::string& name, const std::string& bytes, size_t budget, int multi, uint64_t seed) {
	NifFile n;
	if (loadNif(n, bytes) != 0) return false;
	SaveTrace tr;
	Entry e;
	e.name = name;
	e.N = saveTraced(n, true, tr);
	e.numBlocks = (uint32_t)tr.blocks.size();
	std::vector<RefSite> sites;
	std::vector<int> parentOf(tr.blocks.size(), -1);
	for (size_t b = 0; b < tr.blocks.size(); b++)
		for (auto& r : tr.blocks[b].refs) {
			size_t pos = tr.blocks[b].start + (size_t)r.off;
			if (pos + 4 > e.N.size()) continue;
			uint32_t inFile;
			memcpy(&inFile, &e.N[pos], 4);
			if (inFile != r.value) continue;   // (never expected) the hook offset does not address the value
			sites.push_back({(uint32_t)b, pos, r.value, tr.blocks[b].obj->GetBlockName(), r.cls});
			if (r.value < parentOf.size() && parentOf[r.value] < 0 && r.value != b) parentOf[r.value] = (int)b;
		}
	if (sites.empty()) return false;
	Rng rng(seed);
	std::vector<std::string> types;
	for (auto& b : tr.blocks) types.push_back(b.obj->GetBlockName());
	buildFaults(e, sites, parentOf, types, budget, multi, rng);
	if (g_cfg.verbose) for (auto& f : e.faults) fprintf(stderr, "FAULT %s\n", f.what.c_str());
	g_files.push_back(std::move(e));
	return true;
}

void init() {
	Plan p = plan();
	size_t k = 0;
	for (auto& s : realSamples()) addFile("real:" + s.name, s.bytes, p.perRealFile, p.multi, mix(g_cfg.seed, 0xC15000 + k++));
	const TypeDB& db = typeDB();
	for (size_t ti = 0; ti < db.names.size(); ti++)
		for (int v = 0; v < p.synVersionsPerType; v++) {
			size_t vi = p.synVersionsPerType == NVERS ? (size_t)v : (ti * 3 + (size_t)g_cfg.seed) % (size_t)NVERS;
			SynthOpts so;
			so.gen.maxCount = 1 + (int)(ti % 3);
			so.gen.minCount = 1;
			so.gen.emptyRefOneIn = 8;
			uint64_t seed = mix(mix(g_cfg.seed ^ 0xC15, hashStr(db.names[ti])), vi);
			SynthFile S = synthFile(VERS[vi], db.names[ti], seed, so);
			if (!S.ok) continue;
			addFile(fmt("syn:%s:%s:seed=%llu", VERS[vi].n, db.names[ti].c_str(), (unsigned long long)seed), S.bytes, p.perSynFile, 2, seed);
		}
	for (int i = 0; i < p.apiModels; i++) {
		ApiOpts ao;
		ao.segments = true;
		ao.partitions = i % 2 == 0;
		ao.skinned = i % 3 != 2;
		ao.tangents = true;
		ao.shapes = 2 + i % 2;   // several shapes of one kind with different sizes: exchanging two blocks of one type matters
		ao.nv = -1;   // random sizes: the shapes of one model differ in vertex count
		ao.nt = 10;
		ao.bones = 3;
		ApiModel m = buildApiModel(mix(g_cfg.seed, 0xC15A00 + (uint64_t)i), i, &ao);
		if (m.ok) addFile("api:" + m.desc, m.bytes, p.perSynFile * 2, 4, mix(g_cfg.seed, 0xC15B00 + (uint64_t)i));
	}
	for (size_t fi = 0; fi < g_files.size(); fi++)
		for (size_t f = 0; f < g_files[fi].faults.size(); f += CHUNK) g_cases.push_back({fi, f});
}

void run(size_t idx) {
	auto [fi, first] = g_cases[idx];
	const Entry& e = g_files[fi];
	size_t last = std::min(e.faults.size(), first + CHUNK);
	for (size_t k = first; k < last; k++) {
		const Fault& f = e.faults[k];
		R_caseDesc(f.what);
		R_eval();
		std::string m = e.N;
		for (auto& [pos, v] : f.patches) memcpy(&m[pos], &v, 4);
		FaultResult fr = faultPipeline(m, f.what, true, true);
		R_stat(f.patches.size() > 1 ? "multi_faults" : "single_faults");
		if (fr.ran) R_cover(fmt("%zu/%zu", fi, k));
	}
	if (first == 0 && fi % 53 == 0 && !e.faults.empty()) R_sample(fmt("{\"file\":\"%s\",\"blocks\":%u,\"faults\":%zu,\"first\":\"%s\"}", jesc(e.name).c_str(), e.numBlocks, e.faults.size(), jesc(e.faults[0].what).c_str()));
}

MonReg reg({"C15", "fault_enumeration",
			"fault = one reference field (1..3 for multi faults) of an otherwise valid file holds another value. Field offsets come from the BlockRef hook of the traced raw save of the "
			"file's normal form; values: empty, block count, beyond count, the block itself, its parent, the root, an arbitrary in-range index, 0xFFFFFFFE, another block of the same type (on every field of small strata); plus pairs of sibling fields of one block (same declared target class): one redirected to an existing block, the other made unresolvable. Fields are stratified by "
			"(block type, declared target class) so that every stratum receives every kind before a second field of the stratum is visited (quick: ~110 faults per real file, 36 per "
			"synthesised file of each block type; thorough: 2400 / 400 x 14 versions). Pipeline per fault in a fork-isolated child: Load (must return 0) -> query battery -> copy -> raw save "
			"-> default save -> reload (must return 0). Oracle: no sanitizer/assertion abort, signal, exception or CPU-limit hang. Non-trivial = fault whose file loaded and ran all phases.",
			[] { return g_cases.size(); }, run, 3, 20.0, true, false, init});
} // namespace
