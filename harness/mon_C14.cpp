// C14 — cloning a shape yields a self-contained copy and leaves the source untouched.
#include "graphsnap.hpp"
#include "battery.hpp"
#include "oracles.hpp"
#include "sources.hpp"

namespace {
using namespace vf;

// the record of one shape (lines between "shape <name>" and the next shape), without name / id / parent lines
std::vector<std::string> shapeRecord(NifFile& nif, const std::string& name) {
	runBattery(nif);
	auto rec = runBattery(nif).logical;
	std::vector<std::string> out;
	bool in = false;
	for (auto& l : rec) {
		if (l.rfind("shape ", 0) == 0) { in = (l.rfind("shape " + name + " type=", 0) == 0); if (in) out.push_back(l.substr(l.find(" type="))); continue; }
		if (l.rfind("  ", 0) != 0) in = false;
		if (!in) continue;
		if (l.rfind("  parent=", 0) == 0) continue;
		if (l.rfind("  calcGlobalToSkin", 0) == 0) continue;   // derived from the node hierarchy of the model the shape lives in
		out.push_back(l);
	}
	return out;
}

std::string nameOf(NiObject* o) {
	if (auto n = dynamic_cast<NiObjectNET*>(o)) return n->name.get();
	return "";
}

// recursive comparison of the owned sub-graphs below a (source) and b (destination)
static NiObject* topA = nullptr;
static NiObject* topB = nullptr;
static bool modelSpaceStripped = false;   // Skyrim shapes with model-space normals: the clone drops normals and tangents, and with them the vertex layout kept in NiSkinPartition
// flA / flB: the child of the shape (source / clone) below which a and b sit; CloneChildren rebinds pointers to that block anywhere in its sub-tree
bool iso(const GraphSnap& ga, NiObject* a, const GraphSnap& gb, NiObject* b, bool top, std::set<std::pair<NiObject*, NiObject*>>& seen, std::string& err, std::string& cls, long& blocks, NiObject* flA = nullptr, NiObject* flB = nullptr) {
	if (!seen.insert({a, b}).second) return true;
	const BlockSnap& ba = ga.blocks[ga.index.at(a)];
	const BlockSnap& bb = gb.blocks[gb.index.at(b)];
	blocks++;
	if (ba.type != bb.type) { cls = "type/" + ba.type; err = "source block " + ba.type + " was cloned as " + bb.type; return false; }
	if (!top)
		if (auto na = dynamic_cast<NiNode*>(a)) {
			// a node owned below a shape (synthesised graphs only) that shares its name with another node of the source: CloneShape places
			// the source's nodes by name (FindBlockByName), so such a clone may receive children meant for its namesake; names are the
			// library's node identity, ambiguous ones are outside what the property speaks about
			for (auto& o : ga.blocks)
				if (auto other = dynamic_cast<NiNode*>(o.obj))
					if (other != na && other->name.get() == na->name.get()) { R_stat("cloned_nodes_with_ambiguous_names_not_compared"); return true; }
		}
	bool boneContainer = dynamic_cast<NiBoneContainer*>(a) != nullptr;   // bone pointer lists are rebuilt by name (checked through the bone list)
	{
		// other pointer arrays (e.g. the two bone lists of a BSTreeNode): pointers to blocks outside the cloned sub-graph cannot resolve
		// in the destination, are emptied and leave the array when it is written; such a block is compared like a bone container
		// (owning slots in order), not by payload, which holds the array counts
		size_t pa = 0, pb = 0;
		for (auto f : ba.slotIsPtr) pa += f == 1;
		for (auto f : bb.slotIsPtr) pb += f == 1;
		if (!boneContainer && pb < pa && ba.slotIndex.size() - pa == bb.slotIndex.size() - pb) { boneContainer = true; R_stat("blocks_with_pointer_arrays_to_blocks_outside_the_clone"); }
	}
	if (!top && !boneContainer && ba.canon != bb.canon && !(modelSpaceStripped && (ba.type == "NiSkinPartition" || dynamic_cast<NiGeometryData*>(a)))) {
		size_t d = 0;
		while (d < ba.canon.size() && d < bb.canon.size() && ba.canon[d] == bb.canon[d]) d++;
		cls = "payload/" + ba.type;
		err = "content of the cloned " + ba.type + fmt(" differs from the source's at canonical offset %zu (%s vs %s)", d, hexs(ba.canon.substr(d, 8), 8).c_str(), hexs(bb.canon.substr(d, 8), 8).c_str());
		return false;
	}
	if (top) return true;   // the shape block itself: its references are compared by the caller, its content through the accessors
	if (boneContainer) {
		std::vector<size_t> oa, ob;
		for (size_t k = 0; k < ba.slotIndex.size(); k++) if (ba.slotIsPtr[k] != 1) oa.push_back(k);
		for (size_t k = 0; k < bb.slotIndex.size(); k++) if (bb.slotIsPtr[k] != 1) ob.push_back(k);
		if (oa.size() != ob.size()) { cls = "slot-count/" + ba.type; err = ba.type + ": different number of owning reference slots"; return false; }
		for (size_t j = 0; j < oa.size(); j++) {
			NiObject* ta = ba.slotTarget[oa[j]];
			NiObject* tb = bb.slotTarget[ob[j]];
			if (!ta) continue;
			if (!tb) { cls = "ref-unresolved/" + ba.type; err = ba.type + ": an owning slot resolves to nothing in the destination"; return false; }
			if (!iso(ga, ta, gb, tb, false, seen, err, cls, blocks, flA, flB)) return false;
		}
		return true;
	}
	if (ba.slotIndex.size() != bb.slotIndex.size()) { cls = "slot-count/" + ba.type; err = ba.type + fmt(": %zu reference slots in the source, %zu in the clone", ba.slotIndex.size(), bb.slotIndex.size()); return false; }
	for (size_t k = 0; k < ba.slotIndex.size(); k++) {
		NiObject* ta = ba.slotTarget[k];
		NiObject* tb = bb.slotTarget[k];
		bool ptr = ba.slotIsPtr[k] == 1;
		if (!ta) {
			if (ba.slotIndex[k] == NIF_NPOS && bb.slotIndex[k] != NIF_NPOS && !ptr) { cls = "empty-ref-filled/" + ba.type; err = ba.type + fmt(": slot %zu is empty in the source but holds %u in the clone", k, bb.slotIndex[k]); return false; }
			continue;
		}
		if (ptr && flA && ta == flA && tb != flB) { cls = "pointer-to-owner-not-rebound/" + ba.type; err = ba.type + fmt(": pointer slot %zu designates the %s this block hangs below (e.g. a controller's target); in the clone it designates %s instead of the cloned %s", k, ga.blocks[ga.index.at(ta)].type.c_str(), !tb ? "nothing" : tb == ta ? "the source's block" : gb.blocks[gb.index.at(tb)].type.c_str(), ga.blocks[ga.index.at(ta)].type.c_str()); return false; }
		if (!tb) {
			if (ptr) continue;   // a back-pointer that cannot be rebound may be dropped
			cls = "ref-unresolved/" + ba.type;
			err = ba.type + fmt(": slot %zu designates a %s in the source, the clone's value %u resolves to nothing in the destination", k, ga.blocks[ga.index.at(ta)].type.c_str(), bb.slotIndex[k]);
			return false;
		}
		if (ptr) {
			// back-pointers are rebound "where possible" (CloneChildren): a pointer to the source shape must designate the clone;
			// pointers to other blocks (skeleton root, bones: checked through the bone list) are outside what cloning remaps
			if (ta == topA && tb != topB) { cls = "pointer-to-shape-not-rebound/" + ba.type; err = ba.type + fmt(": pointer slot %zu designates the source shape, in the clone it designates %s instead of the cloned shape", k, gb.blocks[gb.index.at(tb)].type.c_str()); return false; }
			continue;
		}
		if (!iso(ga, ta, gb, tb, false, seen, err, cls, blocks, flA, flB)) return false;
	}
	return true;
}

void cloneCheck(NifFile& src, NiShape* srcShape, NifFile& dst, bool sameModel, const std::string& what, int reps) {
	std::string vclass = verClass(dst.GetHeader().GetVersion());
	std::string srcName = srcShape->name.get();
	std::string srcBefore;
	src.FinalizeData();   // the graph snapshots below finalize the model; do it before the reference bytes are taken
	// the query battery settles lazily cached state first (GetShapePartitions triangulates strip partitions)
	auto recSrc = shapeRecord(src, srcName);
	{
		NifFile cp(src);
		srcBefore = saveNif(cp, true);
	}
	std::vector<std::string> srcBones;
	src.GetShapeBoneList(srcShape, srcBones);
	{
		// CloneShape brings along, by name, the nodes it finds strictly below the source's root: shapes skinned to the root itself or to
		// nodes outside that tree (only possible in synthesised files), and bone names carried by several nodes, are not part of this workload
		std::set<std::string> tree;
		std::vector<NiNode*> todo;
		NiNode* root = src.GetRootNode();
		if (root) todo.push_back(root);
		std::set<NiNode*> seenNodes;
		while (!todo.empty()) {
			NiNode* n = todo.back();
			todo.pop_back();
			if (!seenNodes.insert(n).second) continue;
			if (n != root) tree.insert(n->name.get());
			for (auto& c : n->childRefs)
				if (auto cn = src.GetHeader().GetBlock<NiNode>(c)) todo.push_back(cn);
		}
		std::map<std::string, int> nameCount;
		for (uint32_t i = 0; i < src.GetHeader().GetNumBlocks(); i++)
			if (auto n = src.GetHeader().GetBlock<NiNode>(i)) nameCount[n->name.get()]++;
		for (auto& b : srcBones) {
			if (!tree.count(b)) { R_stat("shapes_with_bones_outside_the_root_tree_skipped"); return; }
			if (nameCount[b] > 1) { R_stat("shapes_with_ambiguous_bone_names_skipped"); return; }
		}
	}
	std::vector<std::pair<NiObject*, NiObject*>> allPairs;   // (source block, cloned block) over all repetitions
	for (int r = 0; r < reps; r++) {
		R_eval();
		std::string cname = srcName + "_clone" + std::to_string(r);
		R_phase("CloneShape");
		NiShape* c = dst.CloneShape(srcShape, cname, sameModel ? nullptr : &src);
		if (!c) { R_viol("clone", "null/" + vclass, what + ": CloneShape returned null"); return; }
		std::string w = what + fmt(" [clone %d '%s']", r, cname.c_str());
		// destination header consistent, the clone is a block of the destination
		if (dst.GetBlockID(c) == NIF_NPOS) { R_viol("clone", "not-in-destination/" + vclass, w + ": the returned shape is not a block of the destination"); return; }
		R_phase("compare");
		src.FinalizeData();
		dst.FinalizeData();
		GraphSnap gs = snapshotGraph(src), gd = snapshotGraph(dst);
		// the shape's own owning references
		const BlockSnap& bs = gs.blocks[gs.index.at(srcShape)];
		const BlockSnap& bd = gd.blocks[gd.index.at(c)];
		std::set<std::pair<NiObject*, NiObject*>> seen;
		topA = srcShape;
		topB = c;
		{
			auto shader = src.GetShader(srcShape);
			modelSpaceStripped = shader && shader->IsModelSpace() && (dst.GetHeader().GetVersion().IsSK() || dst.GetHeader().GetVersion().IsSSE());
		}
		std::string err, cls;
		long blocks = 0;
		if (bs.type != bd.type) { R_viol("clone", "type/" + vclass, w + ": source is a " + bs.type + ", clone a " + bd.type); return; }
		{
			// the destination header has to call the clone what the source header calls the source (the type table is what a reader trusts)
			std::string hs = gs.headerTypes[gs.index.at(srcShape)], hd = gd.headerTypes[gd.index.at(c)];
			if (hs != hd) { R_viol("clone", "header-type/" + hs, w + ": the source header calls the shape " + hs + ", the destination header calls the clone " + hd); return; }
		}
		if (bs.slotIndex.size() != bd.slotIndex.size()) { R_viol("clone", "slot-count/" + bs.type, w + fmt(": shape has %zu reference slots, clone %zu", bs.slotIndex.size(), bd.slotIndex.size())); return; }
		for (size_t k = 0; k < bs.slotIndex.size(); k++) {
			NiObject* ta = bs.slotTarget[k];
			NiObject* tb = bd.slotTarget[k];
			if (!ta) continue;
			if (bs.slotIsPtr[k] == 1) continue;
			if (!tb) { R_viol("clone", "ref-unresolved/" + bs.type, w + fmt(": the shape's slot %zu (%s in the source) resolves to nothing in the destination", k, gs.blocks[gs.index.at(ta)].type.c_str())); return; }
			if (sameModel && ta == tb) { R_viol("clone", "shares-child-with-source/" + gs.blocks[gs.index.at(ta)].type, w + fmt(": clone and source share the same %s block", gs.blocks[gs.index.at(ta)].type.c_str())); return; }
			if (!iso(gs, ta, gd, tb, false, seen, err, cls, blocks, ta, tb)) { R_viol("clone", cls, w + ": " + err); return; }
		}
		R_stat("cloned_blocks_compared", blocks);
		for (auto& pr : seen) allPairs.push_back(pr);
		// accessor level: geometry, shader, textures, skin
		auto recDst = shapeRecord(dst, cname);
		{
			// Skyrim: normals and tangents of model-space shaded shapes are dropped on purpose by CloneShape; everything else must agree
			auto strip = [&](const std::vector<std::string>& r) {
				if (!modelSpaceStripped) return r;
				std::vector<std::string> o;
				for (auto& l : r)
					if (l.rfind("  nv=", 0) != 0 && l.rfind("  normals", 0) != 0 && l.rfind("  tangents", 0) != 0 && l.rfind("  sseCompat", 0) != 0) o.push_back(l);
				return o;
			};
			auto a = strip(recSrc), b = strip(recDst);
			if (a != b) { R_viol("clone", "accessor/" + vclass + "/" + diffClass(a, b), w + ": clone answers differently from its source: " + firstDiff(a, b)); return; }
			if (modelSpaceStripped) {
				if (c->GetNumVertices() != srcShape->GetNumVertices() || c->GetNumTriangles() != srcShape->GetNumTriangles()) { R_viol("clone", "accessor/" + vclass + "/counts", w + ": vertex / triangle counts of the clone differ"); return; }
				R_stat("model_space_clones_checked");
			}
		}
		// bones
		std::vector<std::string> dstBones;
		dst.GetShapeBoneList(c, dstBones);
		if (dstBones != srcBones) { R_viol("clone", "bone-list/" + vclass, w + fmt(": %zu bones in the source, %zu in the clone (or different names)", srcBones.size(), dstBones.size())); return; }
		for (auto& bn : srcBones)
			if (!dst.FindBlockByName<NiNode>(bn)) { R_viol("clone", "bone-missing/" + vclass, w + ": bone '" + bn + "' does not exist in the destination"); return; }
		srcShape = sameModel ? dst.FindBlockByName<NiShape>(srcName) : srcShape;
		if (!srcShape) { R_viol("clone", "source-vanished/" + vclass, w + ": the source shape can no longer be found by name"); return; }
	}
	// source untouched
	if (sameModel) {
		R_phase("source-unchanged");
		auto recAfter = shapeRecord(dst, srcName);
		if (recAfter != recSrc) { R_viol("clone", "source-modified/" + vclass + "/" + diffClass(recSrc, recAfter), what + ": the source shape answers differently after it was cloned: " + firstDiff(recSrc, recAfter)); return; }
	}
	if (!sameModel) {
		auto recAfter = shapeRecord(src, srcName);
		if (recAfter != recSrc) { R_viol("clone", "source-modified/" + vclass + "/" + diffClass(recSrc, recAfter), what + ": the source shape answers differently after it was cloned: " + firstDiff(recSrc, recAfter)); return; }
		R_phase("source-unchanged");
		NifFile cp(src);
		std::string after = saveNif(cp, true);
		if (after != srcBefore) { FileDiff d = diffFiles(srcBefore, after, vclass); R_viol("clone", "source-modified/" + d.site, what + ": the source model changed; " + d.detail); return; }
	}
	// what the two models *write* for a source block and for its clone (the graph snapshots above serialise clones of the blocks, so a field
	// the copy constructor loses is lost on both sides there): payloads of the real saves, reference fields and string indices masked
	if (!sameModel) {
		R_phase("written-payloads");
		auto written = [&](NifFile& f) {
			std::map<NiObject*, std::string> m;
			SaveTrace tr;
			std::string by = saveTraced(f, true, tr);
			for (size_t i = 0; i < tr.blocks.size(); i++) {
				size_t b0 = tr.blocks[i].start, b1 = i + 1 < tr.blocks.size() ? tr.blocks[i + 1].start : tr.endPos;
				std::string p = by.substr(b0, b1 - b0), tail;
				for (auto& r : tr.blocks[i].refs) if ((size_t)r.off + 4 <= p.size()) memset(&p[(size_t)r.off], 0xEE, 4);
				for (auto& st : tr.blocks[i].strs) { if ((size_t)st.off + 4 <= p.size() && f.GetHeader().GetVersion().File() >= V20_1_0_3) memset(&p[(size_t)st.off], 0xDD, 4); tail += "|" + st.text; }
				m[tr.blocks[i].obj] = p + tail;
			}
			return m;
		};
		auto ws = written(src), wd = written(dst);
		for (auto& [a, b] : allPairs) {
			auto ia = ws.find(a), ib = wd.find(b);
			if (ia == ws.end() || ib == wd.end()) continue;
			if (dynamic_cast<NiBoneContainer*>(a) || dynamic_cast<NiShape*>(a)) continue;
			if (auto na = dynamic_cast<NiNode*>(a)) {
				// nodes owned below the shape whose name another source node carries as well: see iso()
				bool ambiguous = false;
				for (uint32_t q = 0; q < src.GetHeader().GetNumBlocks() && !ambiguous; q++)
					if (auto other = src.GetHeader().GetBlock<NiNode>(q)) ambiguous = other != na && other->name.get() == na->name.get();
				if (ambiguous) continue;
			}
			if (modelSpaceStripped && (dynamic_cast<NiGeometryData*>(a) || dynamic_cast<NiSkinPartition*>(a))) continue;
			R_stat("written_payloads_compared");
			if (ia->second != ib->second) {
				size_t d = 0;
				while (d < ia->second.size() && d < ib->second.size() && ia->second[d] == ib->second[d]) d++;
				R_viol("clone", std::string("written-payload/") + a->GetBlockName(), what + fmt(": the destination writes the cloned %s differently from how the source model writes the original (first difference at payload offset %zu, %zu vs %zu bytes)", a->GetBlockName(), d, ia->second.size(), ib->second.size()));
				return;
			}
		}
	}
	// destination saves and reloads with the clones intact
	R_phase("save+reload");
	NifFile cp(dst);
	std::string bytes = saveNif(cp, false);
	NifFile re;
	if (loadNif(re, bytes) != 0) { R_viol("clone", "reload/" + vclass, what + ": destination does not reload"); return; }
	auto recMem = shapeRecord(dst, srcName + "_clone0");
	auto recRe = shapeRecord(re, srcName + "_clone0");
	if (recRe.empty()) {
		// a source shape that is itself not reachable from the root is pruned by the default save, and so is its sibling clone
		if (sameModel && shapeRecord(re, srcName).empty()) { R_stat("source_shape_not_in_scene_graph"); return; }
		R_viol("clone", "reload/clone-missing/" + vclass, what + ": the clone is missing after save+reload");
		return;
	}
	// compare the reloaded clone with the reloaded source data (storage quantisation is the same for both): bones, counts, textures
	auto pick = [](const std::vector<std::string>& r, const char* p) { for (auto& l : r) if (l.rfind(p, 0) == 0) return l; return std::string(); };
	for (const char* key : {"  nv=", "  tris ", "  bones ", "  tex0 ", "  texRefs ", "  shader "})
		if (pick(recMem, key) != pick(recRe, key)) { R_viol("clone", std::string("reload/") + vclass + "/" + diffClass({pick(recMem, key)}, {pick(recRe, key)}), what + ": clone changed across save+reload: '" + pick(recMem, key).substr(0, 150) + "' vs '" + pick(recRe, key).substr(0, 150) + "'"); return; }
	R_cover(what);
}

// Node names are not unique in real files (and CloneShape resolves parents and bones by name): cloning inside a model whose node tree
// carries the same name on several levels re-parents nodes while the tree is being walked. Memory safety and termination only.
void dupNameRobustness(const std::string& bytes, uint64_t seed, const std::string& what) {
	Rng rng(seed);
	NifFile nif;
	if (loadNif(nif, bytes) != 0) return;
	auto shapes = nif.GetShapes();
	if (shapes.empty() || !nif.GetRootNode()) return;
	R_phase("duplicate-node-names");
	static const char* NAMES[] = {"N", "N", "M", ""};
	std::vector<NiNode*> nodes{nif.GetRootNode()};
	int n = 3 + (int)rng.below(8);
	for (int i = 0; i < n; i++) {
		NiNode* parent = nodes[rng.below((uint32_t)nodes.size())];
		if (rng.coin(3)) parent = nodes.back();   // deep chains
		MatTransform t;
		t.translation = Vector3((float)i, 1.0f, 2.0f);
		nodes.push_back(nif.AddNode(NAMES[rng.below(4)], t, parent));
	}
	R_eval();
	NiShape* sh = shapes[rng.below((uint32_t)shapes.size())];
	int reps = 1 + (int)rng.below(2);
	for (int r = 0; r < reps; r++) {
		NiShape* c = nif.CloneShape(sh, fmt("dupclone%d", r));
		if (!c) { R_viol("clone", "null/duplicate-node-names", what + ": CloneShape returned null"); return; }
	}
	NifFile dst;
	dst.Create(nif.GetHeader().GetVersion());
	for (int r = 0; r < reps; r++)
		if (!dst.CloneShape(sh, fmt("dupclone%d", r), &nif)) { R_viol("clone", "null/duplicate-node-names", what + ": CloneShape into a fresh model returned null"); return; }
	saveNif(dst, false);
	R_stat("clones_with_duplicate_node_names");
}

struct Plan { int api; int synPer; };
Plan plan() { return g_cfg.tier ? Plan{1200, 12} : Plan{120, 1}; }

std::vector<std::pair<std::string, std::string>> g_models;   // name, bytes (models with at least one shape)
void init() {
	for (auto& s : realSamples()) {
		NifFile n;
		if (loadNif(n, s.bytes) == 0 && !n.GetShapes().empty() && !n.HasUnknown()) g_models.push_back({"real:" + s.name, s.bytes});
	}
	Plan p = plan();
	for (int i = 0; i < p.api; i++) {
		ApiOpts ao;
		ao.segments = i % 2 == 0;
		ao.partitions = i % 3 == 0;
		ao.texturing = (i / 6) % 2 == 1;
		ao.collisionVolumes = i % 3 == 1;   // every second OB / FO3 model: NiTexturingProperty with source textures
		ao.modelSpace = (i % 6 == 2 || i % 6 == 3) && (i / 6) % 2 == 0;   // every second SK / SSE model
		ApiModel m = buildApiModel(mix(g_cfg.seed, 0xC14A00 + (uint64_t)i), i, &ao);
		if (m.ok) g_models.push_back({"api:" + m.desc, m.bytes});
	}
	// synthesised shapes with populated children (properties, controllers, extra data, collision)
	static const char* GEO[] = {"NiTriShape", "NiTriStrips", "BSTriShape", "BSSubIndexTriShape", "BSLODTriShape", "BSSegmentedTriShape", "NiParticles", "BSDynamicTriShape", "BSMeshLODTriShape", "NiLines", "NiScreenElements"};
	for (int g = 0; g < 11; g++)
		for (int vi = 0; vi < NVERS; vi++)
			for (int k = 0; k < p.synPer; k++) {
				if (!admissible(GEO[g], VERS[vi])) continue;
				SynthOpts so;
				so.gen.maxCount = 2;
				so.gen.minCount = 1;
				so.gen.emptyRefOneIn = 6;
				uint64_t seed = mix(mix(g_cfg.seed ^ 0xC14, hashStr(GEO[g])), (uint64_t)vi * 100 + (uint64_t)k);
				SynthFile S = synthFile(VERS[vi], GEO[g], seed, so);
				if (!S.ok) continue;
				NifFile n;
				if (loadNif(n, S.bytes) != 0 || n.GetShapes().empty()) continue;
				g_models.push_back({fmt("syn:%s:%s:seed=%llu", VERS[vi].n, GEO[g], (unsigned long long)seed), saveNif(n, true)});
			}
}

void run(size_t idx) {
	size_t mi = idx / 3;
	int mode = (int)(idx % 3);
	auto& [name, bytes] = g_models[mi];
	uint64_t seed = mix(g_cfg.seed, 0xC14000 + idx);
	Rng rng(seed);
	NifFile src;
	if (loadNif(src, bytes) != 0) return;
	auto shapes = src.GetShapes();
	if (shapes.empty()) return;
	if (mode == 0) dupNameRobustness(bytes, seed, name + " + nodes with repeated names");
	for (size_t si = 0; si < shapes.size() && si < 4; si++) {
		NifFile s2;
		loadNif(s2, bytes);
		{
			// shapes are looked up by name: make the names unique (synthesised files draw names from a small dictionary)
			size_t k = 0;
			for (auto x : s2.GetShapes()) x->name.get() = "s" + std::to_string(k++) + "_" + x->name.get();
		}
		NiShape* sh = s2.GetShapes()[si];
		// a clone inside the same model is attached to the source's parent node: shapes outside the scene graph are not part of this workload
		if (mode == 0 && !s2.GetParentNode(sh)) { R_stat("same_model_shapes_without_parent_skipped"); continue; }
		std::string what = name + " shape '" + sh->name.get() + "' -> " + (mode == 0 ? "same model" : mode == 1 ? "fresh model" : "other model");
		R_caseDesc(what);
		int reps = 1 + (int)rng.below(3);
		// a skeleton with depth: some bones hang below other bones, and the destination already owns the upper ones only
		std::vector<std::string> upperBones;
		if (mode != 0 && (idx / 3) % 4 == 1) {
			std::vector<std::string> bl;
			s2.GetShapeBoneList(sh, bl);
			std::vector<NiNode*> bn;
			std::set<std::string> uniq(bl.begin(), bl.end());
			bool usable = bl.size() >= 2 && uniq.size() == bl.size();
			for (auto& b : bl) {
				auto n = s2.FindBlockByName<NiNode>(b);
				if (!n || n == s2.GetRootNode() || s2.GetParentNode(n) != s2.GetRootNode()) usable = false;
				bn.push_back(n);
			}
			if (usable) {
				std::set<std::string> ups;
				for (size_t k = 1; k < bn.size(); k++)
					if (rng.below(3) != 0) { size_t par = rng.below((uint32_t)k); s2.SetParentNode(bn[k], bn[par]); ups.insert(bl[par]); }
				upperBones.assign(ups.begin(), ups.end());
				if (!upperBones.empty()) { what += fmt(" [nested skeleton; destination already has %zu of the upper bones]", upperBones.size()); R_caseDesc(what); R_stat("clones_from_nested_skeletons_into_partial_ones"); }
			}
		}
		auto prepareDst = [&](NifFile& d) {
			for (auto& u : upperBones)
				if (!d.FindBlockByName<NiNode>(u)) d.AddNode(u, MatTransform());
		};
		if (mode == 0) cloneCheck(s2, sh, s2, true, what, reps);
		else if (mode == 1) {
			NifFile dst;
			if (idx % 2) { what += " {destination object " + useObject(dst, rng) + "}"; R_caseDesc(what); }
			dst.Create(s2.GetHeader().GetVersion());
			prepareDst(dst);
			cloneCheck(s2, sh, dst, false, what, reps);
		}
		else {
			// another loaded model of the same version
			NifFile dst;
			bool found = false;
			for (size_t k = 1; k < g_models.size() && !found; k++) {
				auto& other = g_models[(mi + k * 7) % g_models.size()];
				NifFile probe;
				if (loadNif(probe, other.second) != 0) continue;
				auto &va = probe.GetHeader().GetVersion(), &vb = s2.GetHeader().GetVersion();
				if (va.File() == vb.File() && va.User() == vb.User() && va.Stream() == vb.Stream()) {
					std::string dbytes = other.second;
					if ((idx / 3) % 3 == 2) {
						// a destination that holds a block type the library does not know (an extra data or property type relabelled outside the
						// library): saving keeps its string table and block order, the clone still has to come back under its name
						indep::Header h = indep::parse(dbytes);
						if (h.ok && h.hasSizes && h.blocksEnd + 8 == dbytes.size()) {
							std::vector<size_t> cand;
							for (size_t t = 0; t < h.types.size(); t++)
								if (h.types[t].find("ExtraData") != std::string::npos || h.types[t].find("BSXFlags") != std::string::npos || h.types[t].find("Controller") != std::string::npos) cand.push_back(t);
							if (!cand.empty()) {
								indep::Header mod = h;
								size_t t = cand[rng.below((uint32_t)cand.size())];
								mod.types[t] = "Xq" + mod.types[t];
								dbytes = indep::withHeader(dbytes, h, mod);
								what += " [destination holds unknown block type " + mod.types[t] + "]";
								R_stat("clones_into_models_with_unknown_block_types");
							}
						}
					}
					if (loadNif(dst, dbytes) != 0) continue;
					size_t q = 0;
					for (auto x : dst.GetShapes()) x->name.get() = "d" + std::to_string(q++) + "_" + x->name.get();
					found = true;
					what += " (" + other.first.substr(0, 60) + ")";
				}
			}
			if (!found) continue;
			prepareDst(dst);
			cloneCheck(s2, sh, dst, false, what, reps);
		}
	}
	if (idx % 101 == 0) R_sample(fmt("{\"model\":\"%s\",\"destination\":\"%s\"}", jesc(name.substr(0, 120)).c_str(), mode == 0 ? "same model" : mode == 1 ? "fresh model" : "other loaded model"));
}

MonReg reg({"C14", "exploration",
			"every shape (up to 4 per model) of the real samples, of API-built models (skinned/unskinned, six versions, with and without model-space-normal shaders and NiTexturingProperty/NiSourceTexture chains) and of synthesised files around each geometry class with populated "
			"children (properties, controllers, extra data, collision objects, skin blocks) x destination in {same model, fresh model of the same version, another loaded model of the "
			"same version} x 1..3 repetitions; a quarter of the clones into other models start from a skeleton with depth (bones re-parented below other bones) while the destination already owns only the upper bones; a third of the other-model destinations hold a block type the library does not know. Oracle: the owned sub-graph below the clone is isomorphic to the source's (same types, canonical payloads equal, every owning slot resolved "
			"inside the destination, no child shared with the source, back-pointers land on a block of the same kind and name or are dropped); accessor record (geometry, shader, textures, "
			"skin) equal; bone list names equal and the bones exist; raw save of the source unchanged; destination default-saves and reloads with the clone present and unchanged. Plus, memory safety only: cloning inside models whose node tree repeats names.",
			[] { return g_models.size() * 3; }, run, 6, 300.0, false, false, init});
} // namespace
