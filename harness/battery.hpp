// Query battery: read-only API calls over a model, returned as comparable text records.
//   full     — everything, including representation (block indices, block list, bounds)
//   logical  — only logical content (names, geometry, skin, textures, segments, partitions, transforms),
//              with shapes sorted by name so that block re-ordering does not matter
#pragma once
#include "common.hpp"

namespace vf {

struct BatteryRecord {
	std::vector<std::string> full;
	std::vector<std::string> logical;
	long queries = 0;
};

namespace detail {
template<typename T> inline uint64_t hashPod(const std::vector<T>& v) {
	uint64_t h = 1469598103934665603ull ^ v.size();
	const unsigned char* p = reinterpret_cast<const unsigned char*>(v.data());
	for (size_t i = 0; i < v.size() * sizeof(T); i++) { h ^= p[i]; h *= 1099511628211ull; }
	return h;
}
inline uint64_t hashFloats(const float* f, size_t n) {
	uint64_t h = 1469598103934665603ull ^ n;
	for (size_t i = 0; i < n; i++) {
		float x = f[i];
		if (x == 0.0f) x = 0.0f;   // -0 == +0
		uint32_t u;
		memcpy(&u, &x, 4);
		if (x != x) u = 0x7fc00000;
		for (int b = 0; b < 4; b++) { h ^= (u >> (8 * b)) & 255; h *= 1099511628211ull; }
	}
	return h;
}
inline std::string hv3(const std::vector<Vector3>& v) { return fmt("%zu:%016llx", v.size(), (unsigned long long)hashFloats(v.empty() ? nullptr : &v[0].x, v.size() * 3)); }
inline std::string hv2(const std::vector<Vector2>& v) { return fmt("%zu:%016llx", v.size(), (unsigned long long)hashFloats(v.empty() ? nullptr : &v[0].u, v.size() * 2)); }
inline std::string hc4(const std::vector<Color4>& v) { return fmt("%zu:%016llx", v.size(), (unsigned long long)hashFloats(v.empty() ? nullptr : &v[0].r, v.size() * 4)); }
inline std::string hf(const std::vector<float>& v) { return fmt("%zu:%016llx", v.size(), (unsigned long long)hashFloats(v.data(), v.size())); }
inline std::string xf(const MatTransform& t) {
	float f[13] = {t.translation.x, t.translation.y, t.translation.z, t.rotation[0][0], t.rotation[0][1], t.rotation[0][2], t.rotation[1][0], t.rotation[1][1], t.rotation[1][2],
				   t.rotation[2][0], t.rotation[2][1], t.rotation[2][2], t.scale};
	return fmt("%016llx", (unsigned long long)hashFloats(f, 13));
}
} // namespace detail

// partitionQuery=false leaves out GetShapePartitions, the one query that edits the model (it converts strip partitions to triangle lists)
inline BatteryRecord runBattery(NifFile& nif, bool heavy = true, bool partitionQuery = true) {
	using namespace detail;
	BatteryRecord R;
	auto& hdr = nif.GetHeader();
	auto F = [&](const std::string& s) { R.full.push_back(s); R.queries++; };
	auto L = [&](const std::string& s) { R.logical.push_back(s); R.full.push_back(s); R.queries++; };
	L(fmt("valid=%d unknown=%d terrain=%d", nif.IsValid(), nif.HasUnknown(), nif.IsTerrain()));
	L("version=" + hdr.GetVersion().GetVersionInfo());
	F(fmt("numBlocks=%u", hdr.GetNumBlocks()));
	{
		std::string bl;
		for (uint32_t i = 0; i < hdr.GetNumBlocks(); i++) bl += hdr.GetBlockTypeStringById(i) + ",";
		F("blocks=" + bl);
	}
	auto root = nif.GetRootNode();
	L("root=" + (root ? root->name.get() : std::string("<none>")));
	F(fmt("rootId=%u", nif.GetBlockID(root)));
	{
		Vector3 rt;
		nif.GetRootTranslation(rt);
		L(fmt("rootTranslation=%g,%g,%g", rt.x, rt.y, rt.z));
	}
	{
		std::vector<NiObject*> tree;
		nif.GetTree(tree);
		std::string t;
		for (auto o : tree) t += std::string(o->GetBlockName()) + ",";
		F("tree=" + t);
		F(fmt("treeSize=%zu", tree.size()));
	}
	// nodes
	{
		std::vector<std::string> recs;
		for (auto n : nif.GetNodes()) {
			std::string name = n->name.get();
			auto p = nif.GetParentNode(n);
			MatTransform tp, tg;
			bool a = nif.GetNodeTransformToParent(name, tp);
			bool b = heavy ? nif.GetNodeTransformToGlobal(name, tg) : false;
			std::string r = "node " + name + " type=" + n->GetBlockName() + " parent=" + (p ? p->name.get() : "<none>") + fmt(" children=%u", (unsigned)std::count_if(n->childRefs.begin(), n->childRefs.end(), [](auto& c) { return !c.IsEmpty(); })) + " own=" + xf(n->GetTransformToParent()) +
							(a ? " byName=" + xf(tp) : "") + (b ? " global=" + xf(tg) : "") + fmt(" canDelete=%d", NifFile::CanDeleteNode(n));
			recs.push_back(r);
			F(fmt("nodeId %s=%u nodeName=%s", name.c_str(), nif.GetBlockID(n), nif.GetNodeName(nif.GetBlockID(n)).c_str()));
		}
		std::sort(recs.begin(), recs.end());
		for (auto& r : recs) L(r);
	}
	{
		std::string names;
		for (auto& s : nif.GetShapeNames()) names += s + "|";
		F("shapeNames=" + names);
	}
	L(fmt("sseCompatible=%d triLimit=%zu", nif.IsSSECompatible(), nif.GetTriangleLimit()));
	std::vector<std::vector<std::string>> shapeRecs;
	for (auto s : nif.GetShapes()) {
		std::vector<std::string> r;
		auto A = [&](const std::string& x) { r.push_back(x); R.queries++; };
		A("shape " + s->name.get() + " type=" + s->GetBlockName());
		A(fmt("  nv=%u nt=%u hasV=%d hasUV=%d hasN=%d hasT=%d hasC=%d skinned=%d", s->GetNumVertices(), s->GetNumTriangles(), s->HasVertices(), s->HasUVs(), s->HasNormals(),
			  s->HasTangents(), s->HasVertexColors(), s->IsSkinned()));
		std::vector<Vector3> v;
		bool hv = nif.GetVertsForShape(s, v);
		A(fmt("  verts ok=%d ", hv) + hv3(v));
		if (auto pv = nif.GetVertsForShape(s)) A("  vertsPtr " + hv3(*pv));
		std::vector<Triangle> t;
		bool ht = s->GetTriangles(t);
		A(fmt("  tris ok=%d %zu:%016llx", ht, t.size(), (unsigned long long)hashPod(t)));
		std::vector<Vector2> uv;
		bool hu = nif.GetUvsForShape(s, uv);
		A(fmt("  uvs ok=%d ", hu) + hv2(uv));
		if (auto pn = nif.GetNormalsForShape(s)) A("  normals " + hv3(*pn));
		else A("  normals <none>");
		std::vector<Vector3> tn, bt;
		bool h1 = nif.GetTangentsForShape(s, tn), h2 = nif.GetBitangentsForShape(s, bt);
		A(fmt("  tangents ok=%d ", h1) + hv3(tn) + fmt(" bitangents ok=%d ", h2) + hv3(bt));
		std::vector<Color4> c;
		bool hc = nif.GetColorsForShape(s, c);
		A(fmt("  colors ok=%d ", hc) + hc4(c));
		std::vector<float> eye;
		bool he = NifFile::GetEyeDataForShape(s, eye);
		A(fmt("  eye ok=%d ", he) + hf(eye));
		{
			BoundingSphere b = s->GetBounds();
			R.full.push_back(fmt("  bounds %s %g,%g,%g r=%g", s->name.get().c_str(), b.center.x, b.center.y, b.center.z, b.radius));
		}
		A("  xform " + xf(s->GetTransformToParent()));
		auto parent = nif.GetParentNode(s);
		A("  parent=" + (parent ? parent->name.get() : std::string("<none>")));
		// skin
		std::vector<std::string> bones;
		nif.GetShapeBoneList(s, bones);
		std::string bl;
		for (auto& b : bones) bl += b + "|";
		A(fmt("  bones %zu ", bones.size()) + bl);
		std::vector<int> ids;
		nif.GetShapeBoneIDList(s, ids);
		R.full.push_back(fmt("  boneIds %s %zu:%016llx", s->name.get().c_str(), ids.size(), (unsigned long long)hashPod(ids)));
		uint32_t nb = (uint32_t)ids.size();
		for (uint32_t b = 0; b < nb && b < 200; b++) {
			std::unordered_map<uint16_t, float> w;
			nif.GetShapeBoneWeights(s, b, w);
			std::vector<std::pair<uint16_t, float>> ws(w.begin(), w.end());
			std::sort(ws.begin(), ws.end());
			std::vector<float> flat;
			for (auto& p : ws) { flat.push_back((float)p.first); flat.push_back(p.second); }
			MatTransform x;
			bool hx = nif.GetShapeTransformSkinToBone(s, b, x);
			BoundingSphere bb;
			// NiSkinData-based skins: the accessor checks the index itself, so it is asked for every bone the instance lists; BSSkin
			// (FO4+): only for bone indices the bone data knows (that branch of the accessor does not range-check; observation, DESIGN 8.3)
			bool niSkin = nif.GetHeader().GetBlock<NiSkinInstance>(s->SkinInstanceRef()) != nullptr;
			bool hb = heavy && (hx || niSkin) ? nif.GetShapeBoneBounds(s, b, bb) : false;
			A(fmt("  bone%u w=", b) + hf(flat) + (hx ? " x=" + xf(x) : "") + (hb ? fmt(" b=%g", bb.radius) : ""));
		}
		{
			MatTransform g;
			bool hg = nif.GetShapeTransformGlobalToSkin(s, g);
			A(fmt("  globalToSkin ok=%d ", hg) + (hg ? xf(g) : ""));
			MatTransform cg;
			bool hcg = heavy ? nif.CalcShapeTransformGlobalToSkin(s, cg) : false;
			A(fmt("  calcGlobalToSkin ok=%d ", hcg) + (hcg ? xf(cg) : ""));
		}
		if (partitionQuery) {
			NiVector<BSDismemberSkinInstance::PartitionInfo> pi;
			std::vector<int> tp;
			bool hp = nif.GetShapePartitions(s, pi, tp);
			std::string ps;
			for (uint32_t k = 0; k < pi.size(); k++) ps += fmt("%u/%u,", pi[k].partID, (unsigned)pi[k].flags);
			A(fmt("  partitions ok=%d n=%u ", hp, pi.size()) + ps + fmt(" triParts %zu:%016llx", tp.size(), (unsigned long long)hashPod(tp)));
		}
		{
			NifSegmentationInfo inf;
			std::vector<int> tp;
			bool hs = NifFile::GetShapeSegments(s, inf, tp);
			std::string ss;
			for (auto& seg : inf.segs) { ss += fmt("[%d:", seg.partID); for (auto& sub : seg.subs) ss += fmt("%d/%u/%u/%zu,", sub.partID, sub.userSlotID, sub.material, sub.extraData.size()); ss += "]"; }
			A(fmt("  segments ok=%d ", hs) + ss + " ssf=" + inf.ssfFile + fmt(" triParts %zu:%016llx", tp.size(), (unsigned long long)hashPod(tp)));
		}
		// shader / textures
		auto shader = nif.GetShader(s);
		if (shader) {
			A(std::string("  shader ") + shader->GetBlockName() + fmt(" type=%u skinned=%d ms=%d ds=%d vc=%d va=%d env=%d emis=%d gloss=%g spec=%g alpha=%g wet=", shader->GetShaderType(), shader->IsSkinned(),
																	  shader->IsModelSpace(), shader->IsDoubleSided(), shader->HasVertexColors(), shader->HasVertexAlpha(), shader->HasEnvironmentMapping(),
																	  shader->IsEmissive(), shader->GetGlossiness(), shader->GetSpecularStrength(), shader->GetAlpha()) +
			  shader->GetWetMaterialName());
		}
		else A("  shader <none>");
		for (uint32_t k = 0; k < 10; k++) {
			std::string tex;
			uint32_t rc = nif.GetTextureSlot(s, tex, k);
			A(fmt("  tex%u rc=%u ", k, rc) + tex);
		}
		{
			std::string all;
			for (auto& ref : nif.GetTexturePathRefs(s)) all += ref.get() + "|";
			A("  texRefs " + all);
		}
		auto alpha = nif.GetAlphaProperty(s);
		A(alpha ? fmt("  alpha flags=%u thr=%u", alpha->flags, alpha->threshold) : std::string("  alpha <none>"));
		A(fmt("  material=%d stencil=%d texturing=%d", nif.GetMaterialProperty(s) != nullptr, nif.GetStencilProperty(s) != nullptr, nif.GetTexturingProperty(s) != nullptr));
		A(fmt("  sseCompat=%d", nif.IsSSECompatible(s)));
		R.full.push_back(fmt("  binTangents %s=%d", s->name.get().c_str(), nif.GetBinaryTangentData(s) != nullptr ? 1 : 0));
		R.full.push_back(fmt("  shapeId %s=%u", s->name.get().c_str(), nif.GetBlockID(s)));
		shapeRecs.push_back(r);
	}
	for (auto& r : shapeRecs)
		for (auto& l : r) R.full.push_back(l);
	std::stable_sort(shapeRecs.begin(), shapeRecs.end(), [](auto& a, auto& b) { return a < b; });
	for (auto& r : shapeRecs)
		for (auto& l : r) R.logical.push_back(l);
	return R;
}

inline std::string firstDiff(const std::vector<std::string>& a, const std::vector<std::string>& b) {
	size_t n = std::min(a.size(), b.size());
	for (size_t i = 0; i < n; i++)
		if (a[i] != b[i]) return fmt("line %zu: '", i) + a[i].substr(0, 200) + "' vs '" + b[i].substr(0, 200) + "'";
	if (a.size() != b.size()) return fmt("record length %zu vs %zu; extra: '", a.size(), b.size()) + (a.size() > n ? a[n] : b[n]).substr(0, 200) + "'";
	return "";
}
// short class of the differing line (first token), used in violation signatures
inline std::string diffClass(const std::vector<std::string>& a, const std::vector<std::string>& b) {
	size_t n = std::min(a.size(), b.size());
	auto tok = [](const std::string& s) {
		size_t p = s.find_first_not_of(' ');
		if (p == std::string::npos) return std::string("?");
		size_t e = s.find_first_of(" =0123456789", p);
		return s.substr(p, e == std::string::npos ? std::string::npos : e - p);
	};
	for (size_t i = 0; i < n; i++)
		if (a[i] != b[i]) return tok(a[i]);
	if (a.size() != b.size()) return "length";
	return "";
}

} // namespace vf
