// C02 — saving is repeatable and never alters the in-memory model.
// Three consecutive saves of one NifFile object (raw and default options) are traced through the
// hooks; their canonical dumps (references -> identity of the target object, string indices -> text)
// must be equal, and the query battery must answer the same before and after.
#include "oracles.hpp"
#include "sources.hpp"
#include "battery.hpp"

namespace {
using namespace vf;

struct Plan { int synSeeds; int mutPerSample; int apiModels; int edited; };
Plan plan() { return g_cfg.tier ? Plan{6, 4, 200, 3000} : Plan{1, 1, 96, 900}; }
struct Layout { size_t nReal, nMut, nSyn, nApi, nWit, nEdit; size_t total() const { return nReal + nMut + nSyn + nApi + nWit + nEdit; } };
const std::vector<Sample>& witnesses() {
	static std::vector<Sample> w;
	static bool done = false;
	if (!done) {
		done = true;
		std::string dir = g_cfg.verif + "/findings/C02";
		for (auto& n : listNifs(dir)) w.push_back({n, slurp(dir + "/" + n)});
	}
	return w;
}
Layout layout() {
	Plan p = plan();
	Layout l;
	l.nReal = realSamples().size();
	l.nMut = l.nReal * (size_t)p.mutPerSample;
	l.nSyn = typeDB().names.size() * (size_t)NVERS * (size_t)p.synSeeds;
	l.nApi = (size_t)p.apiModels;
	l.nWit = witnesses().size();
	l.nEdit = (size_t)p.edited;
	return l;
}

std::vector<std::string> canonOfSave(const SaveTrace& tr, const std::string& bytes, std::map<NiObject*, size_t>& idmap, bool defineIds, bool indexStrings) {
	std::vector<std::string> out;
	if (defineIds)
		for (size_t i = 0; i < tr.blocks.size(); i++) idmap[tr.blocks[i].obj] = i;
	auto idOf = [&](NiObject* o) { auto it = idmap.find(o); return it == idmap.end() ? std::string("new") : std::to_string(it->second); };
	for (size_t i = 0; i < tr.blocks.size(); i++) {
		size_t s = tr.blocks[i].start, e = i + 1 < tr.blocks.size() ? tr.blocks[i + 1].start : tr.endPos;
		std::string p = bytes.substr(s, e - s);
		std::string tail;
		for (auto& r : tr.blocks[i].refs) {
			if ((size_t)r.off + 4 <= p.size()) memset(&p[(size_t)r.off], 0xEE, 4);
			if (r.value == 0xFFFFFFFFu) tail += "|R:none";
			else if (r.value >= tr.blocks.size()) tail += "|R:oob" + std::to_string(r.value);
			else tail += "|R:" + idOf(tr.blocks[r.value].obj);
		}
		if (indexStrings)
			for (auto& st : tr.blocks[i].strs) {
				if ((size_t)st.off + 4 <= p.size()) memset(&p[(size_t)st.off], 0xDD, 4);
				tail += "|S:" + st.text;   // text only: an unset index and an index of the empty string both denote the empty string
			}
		out.push_back("id=" + idOf(tr.blocks[i].obj) + " " + tr.blocks[i].obj->GetBlockName() + ":" + p + tail);
	}
	return out;
}

// one string per shape of a logical record
std::multiset<std::string> shapeRecords(const std::vector<std::string>& logical) {
	std::multiset<std::string> out;
	std::string cur;
	bool in = false;
	for (auto& l : logical) {
		if (l.rfind("shape ", 0) == 0) { if (in) out.insert(cur); cur = l + "\n"; in = true; }
		else if (in && l.rfind("  ", 0) == 0) cur += l + "\n";
		else { if (in) out.insert(cur); in = false; }
	}
	if (in) out.insert(cur);
	return out;
}

// a skin whose bone list has an empty slot (a bone node deleted through DeleteBlock/DeleteNode, or a file that stores one)
bool hasEmptyBoneSlot(NifFile& n) {
	auto& hdr = n.GetHeader();
	for (uint32_t i = 0; i < hdr.GetNumBlocks(); i++)
		if (auto bc = hdr.GetBlock<NiBoneContainer>(i))
			for (auto& r : bc->boneRefs)
				if (r.IsEmpty()) return true;
	return false;
}

void checkModel(const std::function<bool(NifFile&)>& make, const std::string& source, const std::string& coverKey, bool saveFirstToo = false) {
	// passes 0,1: queries, then three saves (raw / default).  Passes 2,3 (edited and API-built models): the first save comes before any
	// query, so that state the queries would refresh (lazily built vertex copies, cached triangle lists) is still as the edits left it
	for (int mode = 0; mode < (saveFirstToo ? 4 : 2); mode++) {
		bool raw = mode % 2 == 0;
		bool saveFirst = mode >= 2;
		const char* mn = raw ? "raw" : "default";
		NifFile n;
		R_phase("make");
		if (!make(n)) { R_stat("input_not_accepted"); return; }
		R_eval();
		std::string vclass = verClass(n.GetHeader().GetVersion());
		bool indexStrings = n.GetHeader().GetVersion().File() >= V20_1_0_3;
		// tag for the recorded finding about bone/bone-data pairing (see known_findings.json)
		bool holes = hasEmptyBoneSlot(n);
		auto holeTag = [&](const std::string& cls) { return cls + (holes && (cls == "bones" || cls == "bone" || cls == "globalToSkin" || cls == "calcGlobalToSkin") ? "+empty-bone-slot" : ""); };
		// tag for the recorded finding about strip-stored partitions (GetShapePartitions triangulates them in the live model)
		bool stripParts = false;
		for (uint32_t bi = 0; bi < n.GetHeader().GetNumBlocks(); bi++)
			if (auto spb = n.GetHeader().GetBlock<NiSkinPartition>(bi))
				for (auto& pp : spb->partitions) stripParts |= pp.numStrips != 0;
		R_phase("battery0");
		// Some read-only queries cache derived state lazily (e.g. GetShapePartitions triangulates strip partitions), which is
		// not an effect of saving: the baseline is the second run of the battery.
		BatteryRecord B0;
		if (!saveFirst) {
			runBattery(n);
			B0 = runBattery(n);
			R_stat("battery_queries", B0.queries);
		}
		else R_stat("models_saved_before_any_query");
		std::map<NiObject*, size_t> idmap;
		std::vector<std::string> C[3];
		std::string S[3];
		BatteryRecord B[3];
		for (int k = 0; k < 3; k++) {
			R_phase(raw ? "save:raw" : "save:default");
			SaveTrace tr;
			S[k] = saveTraced(n, raw, tr);
			C[k] = canonOfSave(tr, S[k], idmap, k == 0, indexStrings);
			R_phase("battery");
			B[k] = runBattery(n, true, true);   // also in the save-first passes: saves interleaved with read-only queries are part of the statement
			R_stat("blocks_saved", (long)tr.blocks.size());
		}
		for (int k = 1; k < 3; k++) {
			if (C[k] == C[0]) continue;
			std::string site = vclass + "/block-count", detail = fmt("save 1 wrote %zu blocks, save %d wrote %zu", C[0].size(), k + 1, C[k].size());
			for (size_t i = 0; i < std::min(C[0].size(), C[k].size()); i++)
				if (C[0][i] != C[k][i]) {
					std::string t0 = C[0][i].substr(0, C[0][i].find(':')), tk = C[k][i].substr(0, C[k][i].find(':'));
					std::string ty = t0.substr(t0.find(' ') + 1);
					site = vclass + "/" + ty + (saveFirst && stripParts && ty == "NiSkinPartition" ? "+strip-partitions-triangulated-by-query" : "");
					size_t d = 0;
					while (d < C[0][i].size() && d < C[k][i].size() && C[0][i][d] == C[k][i][d]) d++;
					detail = fmt("block %zu: save 1 '%s' vs save %d '%s', canonical dumps differ at char %zu (%s vs %s)", i, t0.c_str(), k + 1, tk.c_str(), d,
								 hexs(C[0][i].substr(d, 10), 10).c_str(), hexs(C[k][i].substr(d, 10), 10).c_str());
					break;
				}
			R_viol(std::string("repeat-save-") + mn + (saveFirst ? "-before-any-query" : ""), site, source + ": " + detail);
			break;
		}
		for (int k = 1; k < 3; k++)
			if (B[k].full != B[0].full) {
				R_viol(std::string("query-after-resave-") + mn + (saveFirst ? "-before-any-query" : ""), vclass + "/" + diffClass(B[0].full, B[k].full) + (saveFirst && stripParts && diffClass(B[0].full, B[k].full) == "sseCompatible" ? "+strip-partitions-triangulated-by-query" : ""), source + fmt(": queries after save 1 vs after save %d: ", k + 1) + firstDiff(B[0].full, B[k].full));
				break;
			}
		if (saveFirst) {}
		else if (raw) {
			if (B0.logical != B[0].logical)
				R_viol("query-before-after-raw", vclass + "/" + holeTag(diffClass(B0.logical, B[0].logical)), source + ": logical queries before vs after the first raw save: " + firstDiff(B0.logical, B[0].logical));
		}
		else {
			// default save may prune unreferenced shapes / nodes and re-order: every shape that survives must answer as before
			auto before = shapeRecords(B0.logical), after = shapeRecords(B[0].logical);
			for (auto& rec : after) {
				auto it = before.find(rec);
				if (it != before.end()) { before.erase(it); continue; }
				// find the record of the same shape before the save to name the differing query
				std::string head = rec.substr(0, rec.find('\n'));
				std::string cls = "shape", line = head;
				for (auto& b : before)
					if (b.substr(0, b.find('\n')) == head) {
						std::vector<std::string> la, lb;
						std::stringstream sa(b), sb(rec);
						std::string x;
						while (std::getline(sa, x)) la.push_back(x);
						while (std::getline(sb, x)) lb.push_back(x);
						cls = diffClass(la, lb);
						line = firstDiff(la, lb);
						break;
					}
				R_viol("query-before-after-default", vclass + "/" + holeTag(cls), source + ": a surviving shape answers differently after the first default save: " + line);
				break;
			}
		}
		R_stat(S[0] == S[1] && S[1] == S[2] ? "three_saves_byte_identical" : "three_saves_differ_in_bytes_only_by_string_numbering_or_more");
		if (C[0].size() > 1) R_cover(coverKey + "/" + mn + (saveFirst ? "/save-first" : ""));
	}
}

void run(size_t idx) {
	Layout l = layout();
	Plan p = plan();
	if (idx < l.nReal) {
		auto& s = realSamples()[idx];
		R_caseDesc("real:" + s.name);
		checkModel([&](NifFile& n) { return loadNif(n, s.bytes) == 0; }, "real:" + s.name, "real:" + s.name);
		if (idx == 1) R_sample(fmt("{\"source\":\"real\",\"file\":\"%s\",\"saves\":3,\"modes\":[\"raw\",\"default\"]}", s.name.c_str()));
		return;
	}
	idx -= l.nReal;
	if (idx < l.nMut) {
		auto& s = realSamples()[idx / (size_t)p.mutPerSample];
		uint64_t seed = mix(g_cfg.seed, 0xC02A000 + idx);
		std::string d = fmt("mut:%s:%llu", s.name.c_str(), (unsigned long long)seed);
		R_caseDesc(d);
		std::string m = mutateFloats(s.bytes, seed);
		if (m.empty()) { R_stat("mutator_rejected"); return; }
		if (g_cfg.verbose) { std::ofstream f("/tmp/nifmon_input.nif", std::ios::binary); f << m; }
		checkModel([&](NifFile& n) { return loadNif(n, m) == 0; }, d, d);
		return;
	}
	idx -= l.nMut;
	if (idx < l.nSyn) {
		const TypeDB& db = typeDB();
		size_t per = db.names.size() * (size_t)NVERS;
		size_t it = idx / per, rest = idx % per;
		const VerInfo& v = VERS[rest / db.names.size()];
		const std::string& name = db.names[rest % db.names.size()];
		uint64_t seed = mix(mix(g_cfg.seed ^ 0xC02, hashStr(name)), (rest / db.names.size()) * 1000 + it);
		SynthOpts so;
		so.gen.maxCount = 1 + (int)((it + rest) % 4);
		so.gen.boolBias = (int)((it + rest) % 3);
		std::string d = fmt("syn:%s:%s:it=%zu:seed=%llu", v.n, name.c_str(), it, (unsigned long long)seed);
		R_caseDesc(d);
		SynthFile S = synthFile(v, name, seed, so);
		if (!S.ok) { R_stat("generator_overflow"); return; }
		// Typed synthesis produces format-invalid details that the writer normalises (Havok entity counts != 2, empty slots in
		// bone lists, ...).  C02 takes the library's own normal form of the synthesised file as its input (C01 checks that this
		// is a fixed point); real, mutated and API-built inputs are used as they are.
		{
			NifFile pre;
			if (loadNif(pre, S.bytes) != 0) { R_stat("input_not_accepted"); return; }
			S.bytes = saveNif(pre, true);
		}
		if (g_cfg.verbose) { std::ofstream f("/tmp/nifmon_input.nif", std::ios::binary); f << S.bytes; }
		checkModel([&](NifFile& n) { return loadNif(n, S.bytes) == 0; }, d, fmt("syn:%s:%s:%016llx", v.n, name.c_str(), (unsigned long long)hashStr(S.bytes)));
		if (rest % 1499 == 0 && it == 0) R_sample(fmt("{\"source\":\"syn\",\"version\":\"%s\",\"focus\":\"%s\",\"blocks\":%zu}", v.n, name.c_str(), S.types.size()));
		return;
	}
	idx -= l.nSyn;
	if (idx >= l.nApi + l.nWit) {
		// edited models (same generator as C01): the in-memory model after the edits is saved three times
		size_t e = idx - l.nApi - l.nWit;
		uint64_t seed = mix(g_cfg.seed, 0xED1702 + e);
		std::string src;
		checkModel(
			[&](NifFile& n) {
				Rng rng(seed);
				int kind = (int)(e % 4);
				if (kind == 0) { auto& s = realSamples()[(e / 4) % realSamples().size()]; if (loadNif(n, s.bytes) != 0) return false; src = "edited real:" + s.name; }
				else if (kind == 1) { ApiModel m = buildApiModel(seed, (int)e); if (!m.ok || loadNif(n, m.bytes) != 0) return false; src = "edited api:" + m.desc; }
				else {
					const TypeDB& db = typeDB();
					const std::string& focus = db.names[rng.below((uint32_t)db.names.size())];
					const VerInfo& v = VERS[rng.below((uint32_t)NVERS)];
					SynthOpts so;
					so.gen.maxCount = 2 + (int)rng.below(3);
					so.extraBlocks = 8;
					SynthFile S = synthFile(v, focus, seed, so);
					if (!S.ok) return false;
					NifFile pre;
					if (loadNif(pre, S.bytes) != 0) return false;
					if (loadNif(n, saveNif(pre, true)) != 0) return false;   // normal form, see above
					src = fmt("%s syn:%s:%s:seed=%llu", kind == 2 ? "reversed" : "edited", v.n, focus.c_str(), (unsigned long long)seed);
				}
				if (n.HasUnknown()) return false;
				if (kind == 2) {
					uint32_t nb = n.GetHeader().GetNumBlocks();
					std::vector<uint32_t> perm(nb);
					for (uint32_t i = 0; i < nb; i++) perm[i] = i == 0 ? 0 : nb - i;
					n.GetHeader().SetBlockOrder(perm);
				}
				else {
					// half of the histories query the model before it is edited, so that whatever the accessors cache (raw vertex copies,
					// triangulated partitions, tri-part lists) dates from before the edits
					if ((e / 4) % 2 == 0) { runBattery(n); src += " queried-before-edits"; }
					src += " edits: " + applyRandomEdits(n, rng, 2 + (int)rng.below(5));
				}
				R_caseDesc(src.substr(0, 550));
				return true;
			},
			fmt("edited:%llu", (unsigned long long)seed), fmt("edited:%llu", (unsigned long long)seed), true);
		R_caseDesc(src.substr(0, 550));
		return;
	}
	if (idx >= l.nApi) {
		auto& w = witnesses()[idx - l.nApi];
		R_caseDesc("witness:" + w.name);
		checkModel([&](NifFile& n) { return loadNif(n, w.bytes) == 0; }, "witness:" + w.name, "witness:" + w.name, w.name.find("save_first") != std::string::npos);
		return;
	}
	{
		uint64_t seed = mix(g_cfg.seed, 0xC02B000 + idx);
		ApiOpts ao;
		ao.segments = (idx % 2) == 0;
		ao.partitions = (idx % 3) == 0;
		// the in-memory model built through the API is saved directly (no load in between)
		std::string desc;
		checkModel(
			[&](NifFile& n) {
				ApiModel m = buildApiModel(seed, (int)idx, &ao);
				if (!m.ok) return false;
				desc = m.desc;
				n.CopyFrom(*m.nif);
				// the same model as another exporter would have stored it: partition triangles with their corners in any rotation,
				// partition vertex maps in any order (the library's own rebuild normalises both)
				Rng tr(mix(seed, 0x7A));
				if (idx % 4 == 1 && rotatePartitionTriangles(n, tr) > 0) { desc += " [partition triangles rotated]"; R_stat("models_with_rotated_partition_triangles"); }
				if (idx % 4 == 3 && permutePartitionVertexMaps(n, tr) > 0) { desc += " [partition vertex maps permuted]"; R_stat("models_with_permuted_partition_vertex_maps"); }
				return true;
			},
			fmt("api:%llu:%zu", (unsigned long long)seed, idx), fmt("api:%llu", (unsigned long long)seed), true);
		R_caseDesc("api:" + desc);
		if (idx == 0) R_sample(fmt("{\"source\":\"api\",\"model\":\"%s\"}", jesc(desc).c_str()));
	}
}

MonReg reg({"C02", "exploration",
			"inputs as C01 (52 real files, float-mutated variants, one synthesised file per block type x version x seed, API-built in-memory models incl. skin/partitions/segments (a quarter each with rotated partition triangles / permuted partition vertex maps, as other exporters store them), models after random API edit sequences incl. detached sub-graphs (half of them queried before the edits), reversed block order). "
			"Edited and API-built models get two further passes in which the first save precedes every query (the full battery, partition query included, runs between the saves). "
			"Per input and per option set {raw, default}: one NifFile object is saved three times with the hook trace installed; oracle 1: the canonical dumps of save 1, 2, 3 (per block: "
			"type, payload with reference fields replaced by the identity of the target object and string indices by their text, in file order) are equal; oracle 2: the ~60-call query "
			"battery answers identically after save 1, 2, 3; oracle 3: the logical part of the battery (geometry, skin, textures, segments, partitions, transforms; no block indices or "
			"bounds) is the same before and after the first save (default save: for the shapes that survive pruning). Non-trivial = model with more than one block; distinct by input.",
			[] { return layout().total(); }, run, 40, 120.0, false, false, nullptr});
} // namespace
