// C04 — default save only permutes blocks and prunes unreferenced ones.
#include "graphsnap.hpp"
#include "oracles.hpp"
#include "sources.hpp"
#include "indep_nif.hpp"

namespace {
using namespace vf;

struct Plan { int synSeeds; int apiModels; int ordersPerModel; };
Plan plan() { return g_cfg.tier ? Plan{5, 240, 10} : Plan{1, 48, 5}; }
struct Layout { size_t nReal, nSyn, nApi; size_t total() const { return nReal + nSyn + nApi; } };
Layout layout() {
	Plan p = plan();
	return {realSamples().size(), typeDB().names.size() * ((size_t)NVERS * (size_t)p.synSeeds + (size_t)NXVERS * (g_cfg.tier ? 2 : 1)), (size_t)p.apiModels};
}

enum Op { OP_SORT, OP_OPTIMIZE, OP_PRUNE, OP_SAVE, OP_ORDER };
const char* OPN[] = {"PrettySortBlocks", "Optimize", "DeleteUnreferencedBlocks", "Save(default)", "SetShapeOrder"};

std::string ms(const std::vector<NiObject*>& v, const GraphSnap& g) {
	std::string s;
	for (auto o : v) s += (o && g.has(o) ? g.blocks[g.index.at(o)].type + "#" + std::to_string(g.index.at(o)) : std::string("null")) + ",";
	return s;
}

// compares the graph before (g0) and after (g1) an operation that may only permute (+ prune when mayPrune)
void compareGraphs(const GraphSnap& g0, const GraphSnap& g1, NiObject* root0, bool mayPrune, bool expectRootFirst, const std::string& vclass, const std::string& what, const char* opn) {
	std::string op = opn;
	// 1. survivors distinct, non-null, header agrees
	std::set<NiObject*> seen;
	for (size_t i = 0; i < g1.blocks.size(); i++) {
		auto& b = g1.blocks[i];
		if (!b.obj) { R_viol("null-block", op, what + fmt(": block %zu is null after %s", i, opn)); return; }
		if (!seen.insert(b.obj).second) { R_viol("duplicate-block", op, what + fmt(": block %zu (%s) appears twice after %s", i, b.type.c_str(), opn)); return; }
		if (g1.headerTypes[i] != b.type) { R_viol("header-type", op, what + fmt(": header calls block %zu %s, object is %s", i, g1.headerTypes[i].c_str(), b.type.c_str())); return; }
		if (!g0.has(b.obj)) { R_viol("new-block", op, what + fmt(": block %zu (%s) did not exist before %s", i, b.type.c_str(), opn)); return; }
	}
	// 2./3. pruning
	std::set<NiObject*> reach = reachableFrom(g0, root0);
	for (auto& b0 : g0.blocks) {
		if (!b0.obj || g1.has(b0.obj)) continue;
		if (!mayPrune) { R_viol("block-lost", op + "/" + b0.type, what + ": " + b0.type + " disappeared during " + opn); return; }
		if (reach.count(b0.obj)) { R_viol("reachable-block-pruned", op + "/" + b0.type, what + ": " + b0.type + fmt(" (old index %zu) was reachable from the root but is gone after %s", g0.index.at(b0.obj), opn)); return; }
		for (auto& s : g0.blocks)
			if (s.obj && g1.has(s.obj))
				for (auto t : s.slotTarget)
					if (t == b0.obj) { R_viol("referenced-block-pruned", op + "/" + b0.type, what + ": " + b0.type + " was referenced by surviving " + s.type + " but is gone after " + opn); return; }
		R_stat("blocks_pruned");
	}
	// 4. slots
	for (auto& b1 : g1.blocks) {
		const BlockSnap& b0 = g0.blocks[g0.index.at(b1.obj)];
		if (b1.isNode) {
			std::multiset<NiObject*> c0(b0.children.begin(), b0.children.end()), c1(b1.children.begin(), b1.children.end());
			if (std::set<NiObject*>(c0.begin(), c0.end()) != std::set<NiObject*>(c1.begin(), c1.end())) {
				R_viol("child-set-changed", op + "/" + b1.type, what + ": children of " + b1.type + " before {" + ms(b0.children, g0) + "} after {" + ms(b1.children, g1) + "}");
				return;
			}
			for (auto c : std::set<NiObject*>(c1.begin(), c1.end()))
				if (c1.count(c) > c0.count(c)) { R_viol("child-multiplicity-grew", op + "/" + b1.type, what + ": a child of " + b1.type + " is listed more often after " + opn + ": {" + ms(b1.children, g1) + "}"); return; }
			std::multiset<NiObject*> s0(b0.slotTarget.begin(), b0.slotTarget.end()), s1(b1.slotTarget.begin(), b1.slotTarget.end());
			// other slots of the node (non-children): compare as multisets after removing children
			for (auto c : c0) { auto it = s0.find(c); if (it != s0.end()) s0.erase(it); }
			for (auto c : c1) { auto it = s1.find(c); if (it != s1.end()) s1.erase(it); }
			if (s0 != s1) { R_viol("reference-retargeted", op + "/" + b1.type, what + ": non-child references of " + b1.type + " changed during " + opn); return; }
		}
		else if (b0.slotTarget != b1.slotTarget) {
			R_viol("reference-retargeted", op + "/" + b1.type, what + ": references of " + b1.type + " before {" + ms(b0.slotTarget, g0) + "} after {" + ms(b1.slotTarget, g1) + "}");
			return;
		}
		R_stat("reference_slots_compared", (long)b1.slotTarget.size());
		// 7. payload
		if (!b1.isNode && b0.canon != b1.canon) {
			size_t d = 0;
			while (d < b0.canon.size() && d < b1.canon.size() && b0.canon[d] == b1.canon[d]) d++;
			R_viol("field-value-changed", op + "/" + b1.type, what + ": canonical payload of " + b1.type + fmt(" differs at offset %zu after %s (%s vs %s)", d, opn, hexs(b0.canon.substr(d, 8), 8).c_str(), hexs(b1.canon.substr(d, 8), 8).c_str()));
			return;
		}
		if (b1.isNode) {
			// duplicate entries of one child may legitimately be collapsed ("none listed more often than before"); the payload
			// is comparable only when the child list kept its length
			if (b0.children.size() != b1.children.size()) R_stat("nodes_with_collapsed_duplicate_children");
			else if (b0.canon != b1.canon) { R_viol("field-value-changed", op + "/" + b1.type, what + ": canonical payload of node " + b1.type + " changed during " + opn); return; }
		}
	}
	// 5. root first
	if (expectRootFirst && !g1.blocks.empty()) {
		bool anyParentlessNode = false;
		std::set<NiObject*> hasParent;
		for (auto& b : g1.blocks)
			for (auto c : b.children) hasParent.insert(c);
		for (auto& b : g1.blocks)
			if (b.isNode && !hasParent.count(b.obj)) anyParentlessNode = true;
		auto& first = g1.blocks[0];
		if (anyParentlessNode && (!first.isNode || hasParent.count(first.obj)))
			R_viol("root-not-first", op, what + ": a parentless node exists but block 0 is " + first.type + " after " + opn);
	}
	(void)vclass;
}

void checkModel(const std::string& bytes, const std::string& source, uint64_t seed) {
	Plan p = plan();
	Rng rng(seed);
	NifFile probe;
	if (loadNif(probe, bytes) != 0) { R_stat("input_not_accepted"); return; }
	if (probe.HasUnknown()) return;
	std::string vclass = verClass(probe.GetHeader().GetVersion());
	auto shapeNames = probe.GetShapeNames();
	int nOrders = shapeNames.size() >= 1 ? p.ordersPerModel : 0;
	for (int op = 0; op < 4 + nOrders; op++) {
		Op o = op < 4 ? (Op)op : OP_ORDER;
		NifFile n;
		loadNif(n, bytes);
		R_phase("finalize");
		n.FinalizeData();
		GraphSnap g0 = snapshotGraph(n);
		NiObject* root0 = n.GetRootNode();
		std::string what = source + " " + OPN[o];
		R_eval();
		R_phase(OPN[o]);
		std::string savedBytes;
		SaveTrace savedTrace;
		switch (o) {
			case OP_SORT: n.PrettySortBlocks(); break;
			case OP_OPTIMIZE: n.Optimize(); break;
			case OP_PRUNE: n.DeleteUnreferencedBlocks(); break;
			case OP_SAVE: savedBytes = saveTraced(n, false, savedTrace); break;
			case OP_ORDER: {
				std::vector<std::string> order = shapeNames;
				int kind = (op - 4) % 6;
				switch (kind) {
					case 0: break;                                                   // identity
					case 1: std::reverse(order.begin(), order.end()); break;
					case 2: for (size_t i = order.size(); i > 1; i--) std::swap(order[i - 1], order[rng.below((uint32_t)i)]); break;
					case 3: if (order.size() > 1) order[0] = order[1]; break;          // duplicate name
					case 4: order[rng.below((uint32_t)order.size())] = "no such shape"; break;
					case 5: order.push_back("extra"); break;                           // wrong length
				}
				std::string os;
				for (auto& x : order) os += x + "|";
				what += " order=[" + os + "]";
				n.SetShapeOrder(order);
				break;
			}
		}
		R_caseDesc(what);
		R_phase("snapshot-after");
		n.FinalizeData();
		GraphSnap g1 = snapshotGraph(n);
		bool mayPrune = (o == OP_OPTIMIZE || o == OP_PRUNE || o == OP_SAVE);
		bool rootFirst = (o == OP_SORT || o == OP_SAVE);
		long before = R_violCount();
		compareGraphs(g0, g1, root0, mayPrune, rootFirst, vclass, what, OPN[o]);
		if (R_violCount() != before) continue;
		// 6. sorting an already sorted model changes nothing
		if (o == OP_SORT || o == OP_SAVE) {
			R_phase("second-sort");
			std::vector<NiObject*> ord1;
			for (auto& b : g1.blocks) ord1.push_back(b.obj);
			n.PrettySortBlocks();
			std::vector<NiObject*> ord2;
			for (uint32_t i = 0; i < n.GetHeader().GetNumBlocks(); i++) ord2.push_back(n.GetHeader().GetBlock<NiObject>(i));
			if (ord1 != ord2) {
				size_t d = 0;
				while (d < ord1.size() && d < ord2.size() && ord1[d] == ord2[d]) d++;
				R_viol("second-sort-not-identity", std::string(OPN[o]) + "/" + (d < g1.blocks.size() ? g1.blocks[d].type : "?"), what + fmt(": sorting the already sorted model moved block %zu", d));
				continue;
			}
		}
		// 8. Save(default) == raw save of the explicitly optimized + sorted model
		if (o == OP_SAVE) {
			NifFile m;
			loadNif(m, bytes);
			m.FinalizeData();
			m.Optimize();
			m.PrettySortBlocks();
			SaveTrace explicitTrace;
			std::string explicitBytes = saveTraced(m, true, explicitTrace);
			// byte comparison under the induced string renumbering: string-index fields are replaced by their text
			// (the default save numbers the strings before it prunes and sorts, the explicit path afterwards)
			auto canon = [&](const SaveTrace& tr, const std::string& bytes) {
				std::vector<std::string> out;
				bool indexStrings = n.GetHeader().GetVersion().File() >= V20_1_0_3;
				for (size_t i = 0; i < tr.blocks.size(); i++) {
					size_t st = tr.blocks[i].start, en = i + 1 < tr.blocks.size() ? tr.blocks[i + 1].start : tr.endPos;
					std::string pl = bytes.substr(st, en - st), tail;
					if (indexStrings)
						for (auto& se : tr.blocks[i].strs) { if ((size_t)se.off + 4 <= pl.size()) memset(&pl[(size_t)se.off], 0xDD, 4); tail += "|S:" + se.text; }
					out.push_back(std::string(tr.blocks[i].obj->GetBlockName()) + ":" + pl + tail);
				}
				return out;
			};
			auto c1 = canon(savedTrace, savedBytes), c2 = canon(explicitTrace, explicitBytes);
			if (c1 != c2) {
				std::string site = vclass + "/block-count", det = fmt("%zu vs %zu blocks", c1.size(), c2.size());
				for (size_t i = 0; i < std::min(c1.size(), c2.size()); i++)
					if (c1[i] != c2[i]) { site = vclass + "/" + c1[i].substr(0, c1[i].find(':')); det = fmt("block %zu differs (%s vs %s)", i, c1[i].substr(0, c1[i].find(':')).c_str(), c2[i].substr(0, c2[i].find(':')).c_str()); break; }
				R_viol("save-vs-explicit-optimize-sort", site, what + ": Save(default) differs from Optimize+PrettySortBlocks+raw save beyond string numbering; " + det);
				continue;
			}
		}
		if (g1.blocks.size() > 2) R_cover(fmt("%s/%d/%016llx", source.c_str(), op, (unsigned long long)hashStr(bytes)));
	}
}

void run(size_t idx) {
	Layout l = layout();
	if (idx < l.nReal) {
		auto& s = realSamples()[idx];
		checkModel(s.bytes, "real:" + s.name, mix(g_cfg.seed, idx));
		if (idx == 0) R_sample(fmt("{\"source\":\"real\",\"file\":\"%s\",\"ops\":[\"PrettySortBlocks\",\"Optimize\",\"DeleteUnreferencedBlocks\",\"Save(default)\",\"SetShapeOrder x variants\"]}", s.name.c_str()));
		return;
	}
	idx -= l.nReal;
	if (idx < l.nSyn) {
		const TypeDB& db = typeDB();
		// the 14 main versions x seeds, then the extra Fallout 3 range streams (every stream value a Sync gate compares against)
		size_t per = db.names.size() * (size_t)NVERS, nMain = per * (size_t)plan().synSeeds;
		size_t it, rest;
		if (idx < nMain) { it = idx / per; rest = idx % per; }
		else { size_t perX = db.names.size() * (size_t)NXVERS; it = (idx - nMain) / perX; rest = per + (idx - nMain) % perX; }
		const VerInfo& v = verAt(rest / db.names.size());
		const std::string& name = db.names[rest % db.names.size()];
		uint64_t seed = mix(mix(g_cfg.seed ^ 0xC04, hashStr(name)), (rest / db.names.size()) * 1000 + it);
		SynthOpts so;
		so.gen.maxCount = 2 + (int)((it + rest) % 3);
		so.gen.minCount = (rest % 2) ? 1 : 0;
		so.extraBlocks = 6;
		// explicitly switched stress dimensions: shared targets / multi-parent blocks
		if ((it + rest) % 5 == 4) so.gen.ownershipTree = false;
		std::string d = fmt("syn:%s:%s:it=%zu:seed=%llu%s", v.n, name.c_str(), it, (unsigned long long)seed, so.gen.ownershipTree ? "" : ":shared");
		R_caseDesc(d);
		SynthFile S = synthFile(v, name, seed, so);
		if (!S.ok) { R_stat("generator_overflow"); return; }
		checkModel(S.bytes, d, seed);
		if (rest % 1777 == 0 && it == 0) R_sample(fmt("{\"source\":\"syn\",\"version\":\"%s\",\"focus\":\"%s\",\"blocks\":%zu,\"shared_targets\":%s}", v.n, name.c_str(), S.types.size(), so.gen.ownershipTree ? "false" : "true"));
		return;
	}
	idx -= l.nSyn;
	{
		uint64_t seed = mix(g_cfg.seed, 0xC04B000 + idx);
		ApiOpts ao;
		ao.shapes = 2 + (int)(idx % 3);
		ao.partitions = idx % 2 == 0;
		ao.portedTangentBlock = idx % 4 == 1;
		bool rootNotFirst = idx % 5 == 3;
		if (rootNotFirst) { ao.skinned = 0; ao.partitions = false; }   // nothing points back at the root: only its position protects it
		ApiModel m = buildApiModel(seed, (int)idx, &ao);
		if (!m.ok) return;
		// raw-saved bytes of the built model (loose blocks and construction order preserved)
		NifFile cp(*m.nif);
		if (rootNotFirst) {
			// a file whose first block is a loose one and whose root node comes second (other tools write such files)
			auto& hdr = cp.GetHeader();
			if ((idx / 5) % 2 == 0) {
				auto loose = std::make_unique<NiStringExtraData>();
				loose->name.get() = "loose block in front of the root";
				loose->stringData.get() = "nothing refers to this";
				hdr.AddBlock(std::move(loose));
				m.desc += " [loose block first, root second]";
				R_stat("models_with_a_loose_block_in_front_of_the_root");
			}
			else {
				// a child node of the root stored in front of it (children before parents is a legal block order)
				MatTransform t;
				t.translation = Vector3(1, 2, 3);
				cp.AddNode("ChildStoredFirst", t);
				m.desc += " [a child node of the root first, root second]";
				R_stat("models_with_a_child_node_in_front_of_the_root");
			}
			uint32_t n = hdr.GetNumBlocks();
			std::vector<uint32_t> order(n);
			for (uint32_t i = 0; i + 1 < n; i++) order[i] = i + 1;
			order[n - 1] = 0;
			hdr.SetBlockOrder(order);
		}
		if (idx % 4 == 1 && cp.GetShapes().size() > 1) cp.GetShapes()[1]->name.get() = cp.GetShapes()[0]->name.get();   // duplicate sibling names
		uint32_t nbBuilt = cp.GetHeader().GetNumBlocks();
		std::vector<std::string> typesBuilt;
		for (uint32_t i = 0; i < nbBuilt; i++) typesBuilt.push_back(cp.GetHeader().GetBlockTypeStringById(i));
		bool ob = cp.GetHeader().GetVersion().IsOB();
		std::string bytes = saveNif(cp, true);
		{
			// a save that neither sorts nor prunes writes exactly the blocks of the model (Oblivion adds / removes its tangent-space extra data)
			R_eval();
			indep::Header h = indep::parse(bytes);
			if (h.ok && !ob && h.numBlocks != nbBuilt) {
				std::string lost;
				for (size_t i = 0; i < typesBuilt.size() && lost.empty(); i++)
					if (i >= h.numBlocks || h.typeOf(i) != typesBuilt[i]) lost = typesBuilt[i];
				R_viol("raw-save-changes-blocks", verClass(cp.GetHeader().GetVersion()) + "/" + lost, "api:" + m.desc + fmt(": the model has %u blocks, its raw save (no sorting, no pruning) writes %u; first difference at a %s", nbBuilt, h.numBlocks, lost.c_str()));
			}
		}
		checkModel(bytes, "api:" + m.desc, seed);
		if (idx == 0) R_sample(fmt("{\"source\":\"api\",\"model\":\"%s\"}", jesc(m.desc).c_str()));
	}
}

MonReg reg({"C04", "exploration",
			"models: 52 real samples (collision/constraint graphs, controller chains, ordered nodes, loose blocks, non-zero root), one synthesised graph per block type x version x seed "
			"(ownership trees by default, shared targets as a switched stress dimension), API-built models with 2-4 shapes incl. duplicate sibling names and (one in five, unskinned) a loose block or a child node of the root stored in front of the root node. Per model and operation in "
			"{PrettySortBlocks, Optimize, DeleteUnreferencedBlocks, Save(default), SetShapeOrder with identity/reversed/shuffled/duplicate-name/missing-name/wrong-length orders}: graph "
			"snapshots (object identity, canonical payload with bounding spheres masked, hook-located reference slots, node child lists) before and after. Oracle: survivors distinct and "
			"typed as the header says; only blocks unreachable from the root and unreferenced by survivors vanish; every slot designates the same object; node child sets equal and no "
			"child listed more often; parentless node first after sorting; a second sort is the identity; payloads unchanged; Save(default) == Optimize+sort+raw save byte for byte.",
			[] { return layout().total(); }, run, 30, 120.0, false, false, nullptr});
} // namespace
