// Shared observation helpers: traced save / load (hook events + stream positions), the C07 header
// oracle, block-wise diff of two files.
#pragma once
#include "common.hpp"
#include "indep_nif.hpp"
#include "gen.hpp"
#include <malloc.h>

namespace vf {

struct RefEv { std::streamsize off; uint32_t value; std::string cls; NiRef* ref; };
struct StrEv { std::streamsize off; uint32_t index; std::string text; NiStringRef* ref; };

struct SaveTrace : verif::SyncHooks {
	std::ostream* os = nullptr;
	struct Blk { size_t start = 0; NiObject* obj = nullptr; std::vector<RefEv> refs; std::vector<StrEv> strs; long fields = 0; std::string tokens; size_t objSize = 0; };
	std::vector<Blk> blocks;
	size_t endPos = 0;
	long cur = -1;
	bool sawEnd = false;
	bool recordTokens = false;   // C08: typed field trace "kind.size.member-offset" per block
	// member offset of a synced field inside the block object, or "h" for heap / stack storage (vector elements, temporaries)
	std::string where(const void* addr) const {
		const Blk& b = blocks[(size_t)cur];
		const char* o = reinterpret_cast<const char*>(b.obj);
		const char* a = reinterpret_cast<const char*>(addr);
		if (b.objSize && a >= o && a < o + b.objSize) return std::to_string(a - o);
		return "h";
	}
	void Field(bool reading, verif::FieldKind k, size_t sz, void* addr, const std::type_info*) override {
		if (reading || cur < 0) return;
		blocks[(size_t)cur].fields++;
		if (recordTokens) blocks[(size_t)cur].tokens += " f" + std::to_string((int)k) + "." + std::to_string(sz) + "." + where(addr);
	}
	void Block(bool reading, uint32_t i, NiObject* o) override {
		if (reading) return;
		size_t pos = os ? (size_t)os->tellp() : 0;
		if (o) {
			blocks.push_back({pos, o, {}, {}, 0, {}, 0});
			cur = (long)blocks.size() - 1;
			if (recordTokens) blocks.back().objSize = malloc_usable_size(dynamic_cast<void*>(o));
			(void)i;
		}
		else { endPos = pos; cur = -1; sawEnd = true; }
	}
	void BlockRef(bool reading, NiRef* r, const std::type_info* t, std::streamsize off) override {
		if (reading || cur < 0) return;
		std::string n = demangle(t->name());
		if (!n.empty() && n.back() == '*') n.pop_back();
		blocks[(size_t)cur].refs.push_back({off, r->index, n, r});
		if (recordTokens) blocks[(size_t)cur].tokens += " r." + n + "." + where(r);
	}
	void StringRef(bool reading, NiStringRef* s, std::streamsize off) override {
		if (reading || cur < 0) return;
		blocks[(size_t)cur].strs.push_back({off, s->GetIndex(), s->get(), s});
		if (recordTokens) blocks[(size_t)cur].tokens += " s." + where(s);
	}
};

// one line per block: "<type>:<tokens>" — the typed-field trace of a raw save (C08)
inline std::vector<std::string> traceLines(const SaveTrace& tr) {
	std::vector<std::string> out;
	for (auto& b : tr.blocks) out.push_back(std::string(b.obj->GetBlockName()) + ":" + b.tokens);
	return out;
}

inline std::string saveTraced(NifFile& n, bool raw, SaveTrace& tr) {
	std::ostringstream os(std::ios::binary);
	tr.os = &os;
	NifSaveOptions o;
	if (raw) { o.optimize = false; o.sortBlocks = false; }
	{
		HookScope hs(&tr);
		n.Save(os, o);
	}
	tr.os = nullptr;
	return os.str();
}

struct LoadTrace : verif::SyncHooks {
	std::istream* is = nullptr;
	std::vector<size_t> starts;   // stream position at the start of block i; last entry = end of blocks
	long fields = 0, refs = 0, strs = 0;
	void Field(bool reading, verif::FieldKind, size_t, void*, const std::type_info*) override { if (reading) fields++; }
	void BlockRef(bool reading, NiRef*, const std::type_info*, std::streamsize) override { if (reading) refs++; }
	void StringRef(bool reading, NiStringRef*, std::streamsize) override { if (reading) strs++; }
	void Block(bool reading, uint32_t, NiObject*) override {
		if (!reading || !is) return;
		is->clear(is->rdstate() & ~std::ios::eofbit);
		auto p = is->tellg();
		starts.push_back(p < 0 ? (size_t)-1 : (size_t)p);
	}
};

inline int loadTraced(NifFile& n, const std::string& bytes, LoadTrace& tr) {
	std::istringstream is(bytes, std::ios::binary);
	tr.is = &is;
	int rc;
	{
		HookScope hs(&tr);
		rc = n.Load(is);
	}
	tr.is = nullptr;
	return rc;
}

// ---------------------------------------------------------------- C07 oracle
// Returns "" when the header tables of `bytes` describe the file exactly, otherwise a description; `site` gets a short class.
inline std::string c07Check(const std::string& bytes, const SaveTrace& tr, bool hasUnknown, std::string& site, long* checkedStrings = nullptr) {
	indep::Header h = indep::parse(bytes);
	if (!h.ok) { site = "header-unparsable"; return "independent parser rejects the header: " + h.error; }
	if (h.numBlocks != tr.blocks.size()) { site = "block-count"; return fmt("header says %u blocks, writer emitted %zu", h.numBlocks, tr.blocks.size()); }
	if (!tr.sawEnd) { site = "trace"; return "no end-of-blocks event"; }
	if (h.hasTypes) {
		if (h.typeIndex.size() != h.numBlocks) { site = "type-index-count"; return "type index table length != block count"; }
		for (size_t i = 0; i < h.typeIndex.size(); i++)
			if (h.typeIndex[i] >= h.types.size()) { site = "type-index-range"; return fmt("block %zu has type index %u >= %zu", i, h.typeIndex[i], h.types.size()); }
		for (size_t i = 0; i < tr.blocks.size(); i++) {
			std::string want = tr.blocks[i].obj->GetBlockName();
			if (want != "NiUnknown" && h.typeOf(i) != want) { site = "type-name"; return fmt("block %zu is a %s but the header calls it %s", i, want.c_str(), h.typeOf(i).c_str()); }
		}
	}
	// block boundaries as emitted by the writer
	if (!tr.blocks.empty() && tr.blocks[0].start != h.headerEnd) { site = "header-end"; return fmt("first block written at %zu, header ends at %zu", tr.blocks[0].start, h.headerEnd); }
	if (tr.blocks.empty() && tr.endPos != h.headerEnd) { site = "header-end"; return "empty file: end of blocks != end of header"; }
	if (tr.endPos + 8 != bytes.size()) { site = "footer-position"; return fmt("blocks end at %zu but file has %zu bytes (footer must be 8 bytes)", tr.endPos, bytes.size()); }
	uint32_t f[2];
	memcpy(f, &bytes[bytes.size() - 8], 8);
	if (f[0] != 1 || f[1] != 0) { site = "footer-value"; return fmt("footer is {%u,%u}, expected {1,0}", f[0], f[1]); }
	if (h.hasSizes) {
		if (h.blocksEnd + 8 != bytes.size()) { site = "size-sum"; return fmt("header end %zu + sum of sizes lands on %zu, file has %zu bytes", h.headerEnd, h.blocksEnd, bytes.size()); }
		for (size_t i = 0; i < tr.blocks.size(); i++) {
			size_t next = i + 1 < tr.blocks.size() ? tr.blocks[i + 1].start : tr.endPos;
			size_t emitted = next - tr.blocks[i].start;
			if (emitted != h.sizes[i]) { site = "size-entry/" + h.typeOf(i); return fmt("block %zu (%s): declared size %u, writer emitted %zu bytes", i, h.typeOf(i).c_str(), h.sizes[i], emitted); }
		}
	}
	if (h.hasStrings) {
		uint32_t mx = 0;
		for (auto& s : h.strings) mx = std::max<uint32_t>(mx, (uint32_t)s.size());
		if (mx != h.maxStringLen) { site = "max-string-length"; return fmt("maxStringLen %u, true maximum %u", h.maxStringLen, mx); }
		if (!hasUnknown) {
			std::set<std::string> seen;
			for (auto& s : h.strings)
				if (!seen.insert(s).second) { site = "string-duplicate"; return "string table holds '" + s + "' twice"; }
		}
		if (h.file >= 0x14010003) {
			for (size_t i = 0; i < tr.blocks.size(); i++)
				for (auto& se : tr.blocks[i].strs) {
					size_t pos = tr.blocks[i].start + (size_t)se.off;
					if (pos + 4 > bytes.size()) { site = "string-offset"; return "string field beyond file end"; }
					uint32_t idx;
					memcpy(&idx, &bytes[pos], 4);
					if (checkedStrings) (*checkedStrings)++;
					if (idx != 0xFFFFFFFFu && idx >= h.strings.size()) { site = "string-index-range/" + h.typeOf(i); return fmt("block %zu (%s) stores string index %u, table has %zu entries", i, h.typeOf(i).c_str(), idx, h.strings.size()); }
					if (idx != 0xFFFFFFFFu && h.strings[idx] != se.text) { site = "string-index-content/" + h.typeOf(i); return fmt("block %zu (%s): stored index %u denotes '%s' but the field holds '%s'", i, h.typeOf(i).c_str(), idx, h.strings[idx].c_str(), se.text.c_str()); }
				}
		}
	}
	site.clear();
	return "";
}

// bytes the library's own reader consumes per block when `bytes` is loaded again vs the declared sizes
inline std::string c07ReloadCheck(const std::string& bytes, std::string& site, int* rcOut = nullptr) {
	indep::Header h = indep::parse(bytes);
	if (!h.ok) { site = "header-unparsable"; return h.error; }
	NifFile n;
	LoadTrace lt;
	int rc = loadTraced(n, bytes, lt);
	if (rcOut) *rcOut = rc;
	if (rc != 0) { site = "reload-fails"; return fmt("library cannot load its own output (rc=%d)", rc); }
	if (lt.starts.size() != (size_t)h.numBlocks + 1) { site = "reload-block-events"; return fmt("%zu block events for %u blocks", lt.starts.size(), h.numBlocks); }
	if (h.numBlocks && lt.starts[0] != h.headerEnd) { site = "reload-header-end"; return fmt("reader starts blocks at %zu, header ends at %zu", lt.starts[0], h.headerEnd); }
	if (h.hasSizes)
		for (size_t i = 0; i < h.numBlocks; i++) {
			size_t consumed = lt.starts[i + 1] - lt.starts[i];
			if (consumed != h.sizes[i]) { site = "reload-consumed/" + h.typeOf(i); return fmt("block %zu (%s): declared size %u, reader consumed %zu bytes", i, h.typeOf(i).c_str(), h.sizes[i], consumed); }
		}
	if (lt.starts.back() + 8 != bytes.size()) { site = "reload-end"; return fmt("reader stops at %zu, footer expected at %zu", lt.starts.back(), bytes.size() - 8); }
	site.clear();
	return "";
}

// ---------------------------------------------------------------- block-wise diff
struct FileDiff { bool equal = true; std::string site; std::string detail; };
inline FileDiff diffFiles(const std::string& a, const std::string& b, const std::string& vclass) {
	FileDiff d;
	if (a == b) return d;
	d.equal = false;
	indep::Header ha = indep::parse(a), hb = indep::parse(b);
	if (!ha.ok || !hb.ok || !ha.hasSizes || !hb.hasSizes) {
		size_t k = 0;
		while (k < a.size() && k < b.size() && a[k] == b[k]) k++;
		d.site = vclass + "/bytes";
		// without a size table: attribute to the block type table if it differs
		if (ha.ok && hb.ok && (ha.types != hb.types || ha.typeIndex != hb.typeIndex)) d.site = vclass + "/block-list";
		d.detail = fmt("sizes %zu vs %zu, first difference at offset %zu (header ends at %zu)", a.size(), b.size(), k, ha.ok ? ha.headerEnd : 0);
		return d;
	}
	if (ha.numBlocks != hb.numBlocks) { d.site = vclass + "/block-count"; d.detail = fmt("%u vs %u blocks", ha.numBlocks, hb.numBlocks); return d; }
	for (size_t i = 0; i < ha.numBlocks; i++) {
		if (ha.typeOf(i) != hb.typeOf(i)) { d.site = vclass + "/block-order"; d.detail = fmt("block %zu: %s vs %s", i, ha.typeOf(i).c_str(), hb.typeOf(i).c_str()); return d; }
		std::string pa = a.substr(ha.blockStart[i], ha.sizes[i]), pb = b.substr(hb.blockStart[i], hb.sizes[i]);
		if (pa != pb) {
			size_t k = 0;
			while (k < pa.size() && k < pb.size() && pa[k] == pb[k]) k++;
			d.site = vclass + "/" + ha.typeOf(i);
			d.detail = fmt("block %zu (%s): payload %zu vs %zu bytes, first difference at payload offset %zu: %s vs %s", i, ha.typeOf(i).c_str(), pa.size(), pb.size(), k,
						   hexs(pa.substr(k, 12), 12).c_str(), hexs(pb.substr(k, 12), 12).c_str());
			return d;
		}
	}
	if (ha.strings != hb.strings) { d.site = vclass + "/string-table"; d.detail = fmt("string tables differ (%zu vs %zu entries)", ha.strings.size(), hb.strings.size()); return d; }
	d.site = vclass + "/header";
	d.detail = "payloads equal, header differs";
	return d;
}

} // namespace vf
