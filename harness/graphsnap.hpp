// Snapshot of the block graph of a live model: object identities, canonical payloads, reference slots.
// Taken from *clones* of the blocks written into a private stream with the hooks installed, so taking a
// snapshot never changes the model (write mode erases empty array slots of the object it writes).
#pragma once
#include "common.hpp"
#include "gen.hpp"

namespace vf {

struct BlockSnap {
	NiObject* obj = nullptr;
	std::string type;
	std::string canon;                       // payload with reference fields, string indices and bounding spheres masked + string texts
	std::vector<uint32_t> slotIndex;         // raw index stored in each serialised reference slot (file order; empty array slots already dropped)
	std::vector<NiObject*> slotTarget;       // the object each slot designates (nullptr: empty or out of range)
	std::vector<char> slotIsPtr;             // 1: the slot is enumerated by GetPtrs (back-pointer), 0: by GetChildRefs (owning), 2: by neither
	std::vector<NiObject*> refTargets;       // targets of GetChildRefs (owning references) of the live object
	std::vector<NiObject*> ptrTargets;       // targets of GetPtrs of the live object
	bool isNode = false;
	std::vector<NiObject*> children;         // NiNode::childRefs targets (non-empty, in order)
};

struct GraphSnap {
	std::vector<BlockSnap> blocks;
	std::map<NiObject*, size_t> index;
	std::vector<std::string> headerTypes;    // type name the header reports per index
	uint32_t headerCount = 0;
	bool has(NiObject* o) const { return index.count(o) > 0; }
};

namespace detail {
struct SnapHook : verif::SyncHooks {
	NiOStream* nos = nullptr;
	std::vector<std::pair<std::streamsize, uint32_t>> refs;
	std::vector<NiRef*> refObjs;
	std::vector<std::pair<std::streamsize, std::string>> strs;
	std::vector<std::pair<std::streamsize, size_t>> masks;
	void BlockRef(bool reading, NiRef* r, const std::type_info*, std::streamsize off) override { if (!reading) { refs.push_back({off, r->index}); refObjs.push_back(r); } }
	void StringRef(bool reading, NiStringRef* s, std::streamsize off) override { if (!reading) strs.push_back({off, s->get()}); }
	void Field(bool reading, verif::FieldKind k, size_t sz, void*, const std::type_info* ti) override {
		if (reading || k != verif::FieldKind::Struct || !ti || !nos) return;
		if (*ti == typeid(BoundingSphere)) masks.push_back({nos->GetBlockSize(), sz});
	}
};
} // namespace detail

inline GraphSnap snapshotGraph(NifFile& nif) {
	GraphSnap g;
	auto& hdr = nif.GetHeader();
	uint32_t n = hdr.GetNumBlocks();
	g.headerCount = n;
	bool indexStrings = hdr.GetVersion().File() >= V20_1_0_3;
	std::vector<NiObject*> objs(n, nullptr);
	for (uint32_t i = 0; i < n; i++) { objs[i] = hdr.GetBlock<NiObject>(i); g.headerTypes.push_back(hdr.GetBlockTypeStringById(i)); }
	for (uint32_t i = 0; i < n; i++) {
		BlockSnap b;
		b.obj = objs[i];
		if (!b.obj) { g.blocks.push_back(b); continue; }
		g.index[b.obj] = i;
		b.type = b.obj->GetBlockName();
		auto clone = b.obj->Clone();
		std::ostringstream os(std::ios::binary);
		NiOStream nos(&os, &hdr);
		detail::SnapHook hook;
		hook.nos = &nos;
		{
			HookScope hs(&hook);
			clone->Put(nos);
		}
		std::string p = os.str();
		std::string tail;
		std::set<NiRef*> cloneRefs, clonePtrs;
		clone->GetChildRefs(cloneRefs);
		clone->GetPtrs(clonePtrs);
		for (size_t k = 0; k < hook.refs.size(); k++) {
			auto& [off, idx] = hook.refs[k];
			if ((size_t)off + 4 <= p.size()) memset(&p[(size_t)off], 0xEE, 4);
			b.slotIndex.push_back(idx);
			b.slotTarget.push_back(idx < n ? objs[idx] : nullptr);
			b.slotIsPtr.push_back(clonePtrs.count(hook.refObjs[k]) ? 1 : cloneRefs.count(hook.refObjs[k]) ? 0 : 2);
		}
		if (indexStrings)
			for (auto& [off, text] : hook.strs) {
				if ((size_t)off + 4 <= p.size()) memset(&p[(size_t)off], 0xDD, 4);
				tail += "|S:" + text;
			}
		for (auto& [off, sz] : hook.masks)
			if ((size_t)off + sz <= p.size()) memset(&p[(size_t)off], 0xBB, sz);
		b.canon = p + tail;
		std::set<NiRef*> refs, ptrs;
		b.obj->GetChildRefs(refs);
		b.obj->GetPtrs(ptrs);
		for (auto r : refs) if (r->index < n) b.refTargets.push_back(objs[r->index]);
		for (auto r : ptrs) if (r->index < n) b.ptrTargets.push_back(objs[r->index]);
		if (auto node = dynamic_cast<NiNode*>(b.obj)) {
			b.isNode = true;
			for (auto& c : node->childRefs)
				if (c.index < n) b.children.push_back(objs[c.index]);
		}
		g.blocks.push_back(std::move(b));
	}
	return g;
}

// blocks reachable from `root` over serialised reference slots of G
inline std::set<NiObject*> reachableFrom(const GraphSnap& g, NiObject* root) {
	std::set<NiObject*> seen;
	std::vector<NiObject*> todo;
	if (root && g.has(root)) { seen.insert(root); todo.push_back(root); }
	while (!todo.empty()) {
		NiObject* o = todo.back();
		todo.pop_back();
		const BlockSnap& b = g.blocks[g.index.at(o)];
		for (auto t : b.slotTarget)
			if (t && seen.insert(t).second) todo.push_back(t);
	}
	return seen;
}

} // namespace vf
