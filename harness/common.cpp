#include "common.hpp"

#include <algorithm>
#include <dirent.h>
#include <fcntl.h>
#include <signal.h>
#include <sys/mman.h>
#include <sys/resource.h>
#include <sys/time.h>
#include <sys/wait.h>
#include <unistd.h>

namespace vf {

const VerInfo VERS[] = {
	{"OB", 0x14000005, 11, 11},      {"OB20004", 0x14000004, 11, 11}, {"OB10200", 0x0A020000, 10, 5},
	{"OB101106", 0x0A01006A, 5, 5},  {"SPECIAL", 0x0A000100, 0, 0},   {"FO3", 0x14020007, 11, 34},
	{"SK", 0x14020007, 12, 83},      {"SSE", 0x14020007, 12, 100},    {"FO4", 0x14020007, 12, 130},
	{"FO4_132", 0x14020007, 12, 132}, {"FO4_139", 0x14020007, 12, 139}, {"FO76", 0x14020007, 12, 155},
	{"SF172", 0x14020007, 12, 172},  {"SF173", 0x14020007, 12, 173}};
const int NVERS = 14;
#define FO3S(n) {"FO3s" #n, 0x14020007, 11, n}
const VerInfo XVERS[] = {FO3S(12), FO3S(13), FO3S(14), FO3S(15), FO3S(16), FO3S(17), FO3S(20), FO3S(21), FO3S(22), FO3S(23), FO3S(24), FO3S(25),
						 FO3S(26), FO3S(27), FO3S(28), FO3S(29), FO3S(33), FO3S(35), FO3S(75), FO3S(76), FO3S(77), FO3S(82)};
#undef FO3S
const int NXVERS = 22;

std::string scratchPath(const char* tag) {
	static int n = 0;
	std::string dir = g_cfg.verif + "/.cache/tmp";
	static bool made = false;
	if (!made) { std::filesystem::create_directories(dir); made = true; }
	return dir + "/" + tag + "_" + std::to_string((long)getpid()) + "_" + std::to_string(n++) + ".nif";
}

const VerInfo* findVer(const std::string& name) {
	for (int i = 0; i < NVERS; i++)
		if (name == VERS[i].n) return &VERS[i];
	for (int i = 0; i < NXVERS; i++)
		if (name == XVERS[i].n) return &XVERS[i];
	return nullptr;
}

std::string verClass(const NiVersion& v) {
	if (v.IsOB()) return "OB";
	if (v.IsFO3()) return "FO3";
	if (v.IsSK()) return "SK";
	if (v.IsSSE()) return "SSE";
	if (v.IsFO4()) return "FO4";
	if (v.IsFO76()) return "FO76";
	if (v.IsSF()) return "SF";
	if (v.IsSpecial()) return "SPECIAL";
	return "other";
}

Config g_cfg;

// ------------------------------------------------------------------------------------------------
struct Shared {
	volatile long cur;
	volatile long samples;
	volatile long viols;
	char phase[96];
	char desc[600];
};
static Shared* g_sh = nullptr;
static int g_outFd = 1;
static long g_evals = 0;
static std::map<std::string, long> g_stats;
static std::set<uint64_t> g_cover;
static std::vector<std::string> g_samples;
static long g_localViols = 0;

static void writeLine(const std::string& s) {
	std::string l = s + "\n";
	const char* p = l.data();
	size_t n = l.size();
	while (n) {
		ssize_t w = ::write(g_outFd, p, n);
		if (w <= 0) break;
		p += w;
		n -= (size_t)w;
	}
}

std::string jesc(const std::string& s) {
	std::string o;
	o.reserve(s.size() + 8);
	for (unsigned char c : s) {
		if (c == '"') o += "\\\"";
		else if (c == '\\') o += "\\\\";
		else if (c == '\n') o += "\\n";
		else if (c == '\t') o += "\\t";
		else if (c < 0x20 || c >= 0x7f) { char b[8]; snprintf(b, sizeof b, "\\u%04x", c); o += b; }
		else o += (char)c;
	}
	return o;
}

std::string hexs(const std::string& bytes, size_t maxBytes) {
	static const char* H = "0123456789abcdef";
	std::string o;
	for (size_t i = 0; i < bytes.size() && i < maxBytes; i++) { o += H[(unsigned char)bytes[i] >> 4]; o += H[bytes[i] & 15]; }
	if (bytes.size() > maxBytes) o += "..";
	return o;
}

void R_eval(long n) { g_evals += n; }
void R_cover(const std::string& key) { g_cover.insert(hashStr(key)); }
void R_stat(const std::string& name, long n) { g_stats[name] += n; }
void R_sample(const std::string& json) {
	if (g_sh && g_sh->samples >= 6) return;
	if (g_sh) g_sh->samples++;
	g_samples.push_back(json);
}
void R_phase(const char* phase) {
	if (g_sh) { strncpy(g_sh->phase, phase, sizeof g_sh->phase - 1); g_sh->phase[sizeof g_sh->phase - 1] = 0; }
}
void R_caseDesc(const std::string& d) {
	if (g_sh) { strncpy(g_sh->desc, d.c_str(), sizeof g_sh->desc - 1); g_sh->desc[sizeof g_sh->desc - 1] = 0; }
}
long R_violCount() { return g_localViols; }

void R_viol(const std::string& oracle, const std::string& site, const std::string& detail) {
	g_localViols++;
	static std::map<std::string, int> perSig;   // per process: keep the first few witnesses of a signature, count the rest
	if (++perSig[oracle + ":" + site] > 3) { g_stats["suppressed_duplicate_violations"]++; return; }
	if (g_sh) g_sh->viols++;
	std::ostringstream o;
	o << "{\"t\":\"viol\",\"case\":" << (g_sh ? g_sh->cur : -1) << ",\"oracle\":\"" << jesc(oracle) << "\",\"site\":\"" << jesc(site)
	  << "\",\"detail\":\"" << jesc(detail.substr(0, 1500)) << "\",\"desc\":\"" << jesc(g_sh ? g_sh->desc : "") << "\"}";
	writeLine(o.str());
}

void R_flush() {
	std::ostringstream o;
	o << "{\"t\":\"stats\",\"evals\":" << g_evals << ",\"stats\":{";
	bool first = true;
	for (auto& kv : g_stats) { o << (first ? "" : ",") << "\"" << jesc(kv.first) << "\":" << kv.second; first = false; }
	o << "},\"cover\":[";
	first = true;
	for (auto h : g_cover) { char b[24]; snprintf(b, sizeof b, "\"%016llx\"", (unsigned long long)h); o << (first ? "" : ",") << b; first = false; }
	o << "],\"samples\":[";
	first = true;
	for (auto& s : g_samples) { o << (first ? "" : ",") << s; first = false; }
	o << "]}";
	writeLine(o.str());
	g_evals = 0; g_stats.clear(); g_cover.clear(); g_samples.clear();
}

// ------------------------------------------------------------------------------------------------
static std::vector<Monitor>& monitors() { static std::vector<Monitor> m; return m; }
void registerMonitor(const Monitor& m) { monitors().push_back(m); }

static void armTimer(double secs) {
	struct itimerval it {};
	it.it_value.tv_sec = (long)secs;
	it.it_value.tv_usec = (long)((secs - (long)secs) * 1e6);
	setitimer(ITIMER_PROF, &it, nullptr);
}

static void runOne(const Monitor& m, size_t idx) {
	if (g_sh) { g_sh->cur = (long)idx; g_sh->phase[0] = 0; g_sh->desc[0] = 0; }
	try {
		m.run(idx);
	}
	catch (const std::exception& e) {
		R_viol("exception", std::string(typeid(e).name()), std::string("escaping exception: ") + e.what() + " phase=" + (g_sh ? g_sh->phase : ""));
	}
	catch (...) {
		R_viol("exception", "unknown", "escaping non-std exception");
	}
}

static std::string readFileHead(const std::string& p, size_t maxBytes) {
	std::ifstream f(p, std::ios::binary);
	std::string s((std::istreambuf_iterator<char>(f)), std::istreambuf_iterator<char>());
	if (s.size() > maxBytes) s = s.substr(0, maxBytes) + "\n...[truncated]";
	return s;
}

// returns 0 on normal completion of all cases in [begin,end) of list; otherwise wait status in *st
static bool runChild(const Monitor& m, const std::vector<size_t>& list, size_t begin, size_t end, double cpuLimit, const std::string& errPath, int* st) {
	fflush(nullptr);
	pid_t pid = fork();
	if (pid < 0) { perror("fork"); _exit(2); }
	if (pid == 0) {
		int efd = ::open(errPath.c_str(), O_WRONLY | O_CREAT | O_TRUNC, 0644);
		if (efd >= 0) { dup2(efd, 2); close(efd); }
		for (size_t k = begin; k < end; k++) {
			armTimer(cpuLimit);
			runOne(m, list[k]);
		}
		armTimer(0);
		R_flush();
		_exit(0);
	}
	int status = 0;
	while (waitpid(pid, &status, 0) < 0 && errno == EINTR) {}
	*st = status;
	return WIFEXITED(status) && WEXITSTATUS(status) == 0;
}

int runMonitor(const std::string& id) {
	const Monitor* mp = nullptr;
	for (auto& m : monitors())
		if (id == m.id) mp = &m;
	if (!mp) { fprintf(stderr, "nifmon: unknown monitor %s\n", id.c_str()); return 2; }
	const Monitor& m = *mp;

	if (!g_cfg.outPath.empty()) {
		g_outFd = ::open(g_cfg.outPath.c_str(), O_WRONLY | O_CREAT | O_APPEND, 0644);
		if (g_outFd < 0) { perror("open out"); return 2; }
	}
	g_sh = (Shared*)mmap(nullptr, sizeof(Shared), PROT_READ | PROT_WRITE, MAP_SHARED | MAP_ANONYMOUS, -1, 0);
	if (g_sh == MAP_FAILED) { perror("mmap"); return 2; }
	memset(g_sh, 0, sizeof(Shared));

	if (m.init) m.init();
	size_t N = m.ncases();

	if (g_cfg.shard == 0 || g_cfg.onlyCase >= 0) {
		std::ostringstream o;
		o << "{\"t\":\"meta\",\"id\":\"" << m.id << "\",\"level\":\"" << m.level << "\",\"rule\":\"" << jesc(m.rule) << "\",\"ncases\":" << N
		  << ",\"exhaustive\":" << (m.exhaustive ? "true" : "false") << "}";
		writeLine(o.str());
	}

	if (g_cfg.onlyCase >= 0) {
		if ((size_t)g_cfg.onlyCase >= N) { fprintf(stderr, "nifmon: case %ld out of range (%zu)\n", g_cfg.onlyCase, N); return 2; }
		runOne(m, (size_t)g_cfg.onlyCase);
		R_flush();
		return g_localViols ? 1 : 0;
	}

	std::vector<size_t> list;
	for (size_t i = (size_t)g_cfg.shard; i < N; i += (size_t)g_cfg.nshards) list.push_back(i);

	std::string errPath = (g_cfg.outPath.empty() ? std::string("/dev/null") : g_cfg.outPath + ".err");
	const long maxProblems = 14;
	long problems = 0;
	size_t pos = 0;
	while (pos < list.size()) {
		size_t end = std::min(list.size(), pos + (size_t)std::max(1, m.batch));
		g_sh->cur = -1;
		int st = 0;
		if (runChild(m, list, pos, end, m.cpuLimit, errPath, &st)) { pos = end; continue; }

		// abnormal termination: attribute to the journalled case and confirm it alone
		long cur = g_sh->cur;
		size_t curPos = pos;
		for (size_t k = pos; k < end; k++)
			if ((long)list[k] == cur) curPos = k;
		std::string phase1 = g_sh->phase, desc1 = g_sh->desc;
		int sig1 = WIFSIGNALED(st) ? WTERMSIG(st) : -WEXITSTATUS(st);
		std::string log1 = readFileHead(errPath, 12000);
		if (cur < 0) {
			writeLine("{\"t\":\"harness\",\"detail\":\"child died before any case: " + jesc(log1.substr(0, 400)) + "\"}");
			return 2;
		}
		int st2 = 0;
		bool ok2 = runChild(m, list, curPos, curPos + 1, m.cpuLimit * 2, errPath, &st2);
		if (ok2 && (sig1 == SIGPROF || sig1 == SIGXCPU || sig1 == SIGVTALRM)) {
			// the CPU-time limit fired once (loaded machine), the same case alone with twice the budget ran to completion: its verdict
			// is the one of the completed run; counted so that the evidence shows it
			std::ostringstream o;
			o << "{\"t\":\"slow\",\"case\":" << cur << ",\"phase\":\"" << jesc(phase1) << "\"}";
			writeLine(o.str());
		}
		else if (ok2) {
			std::ostringstream o;
			o << "{\"t\":\"flaky\",\"case\":" << cur << ",\"phase\":\"" << jesc(phase1) << "\",\"sig\":" << sig1 << ",\"desc\":\"" << jesc(desc1)
			  << "\",\"log\":\"" << jesc(log1.substr(0, 3000)) << "\"}";
			writeLine(o.str());
		}
		else {
			int sig2 = WIFSIGNALED(st2) ? WTERMSIG(st2) : -WEXITSTATUS(st2);
			std::string log2 = readFileHead(errPath, 12000);
			bool hang = (sig2 == SIGPROF || sig2 == SIGXCPU || sig2 == SIGVTALRM);
			std::ostringstream o;
			o << "{\"t\":\"crash\",\"case\":" << cur << ",\"phase\":\"" << jesc(g_sh->phase) << "\",\"sig\":" << sig2 << ",\"kind\":\""
			  << (hang ? "hang" : "signal") << "\",\"hangIsViolation\":" << (m.hangIsViolation ? "true" : "false") << ",\"desc\":\"" << jesc(g_sh->desc)
			  << "\",\"log\":\"" << jesc(log2) << "\"}";
			writeLine(o.str());
			problems++;
		}
		pos = curPos + 1;
		if (problems + g_sh->viols >= maxProblems) {
			writeLine("{\"t\":\"truncated\",\"at\":" + std::to_string(pos) + ",\"of\":" + std::to_string(list.size()) + "}");
			break;
		}
	}
	writeLine("{\"t\":\"done\",\"shard\":" + std::to_string(g_cfg.shard) + ",\"cases\":" + std::to_string(list.size()) + "}");
	return 0;
}

// ------------------------------------------------------------------------------------------------
std::string slurp(const std::string& path) {
	std::ifstream f(path, std::ios::binary);
	std::stringstream ss;
	ss << f.rdbuf();
	return ss.str();
}

std::vector<std::string> listNifs(const std::string& dir) {
	std::vector<std::string> out;
	DIR* d = opendir(dir.c_str());
	if (!d) return out;
	while (auto e = readdir(d)) {
		std::string n = e->d_name;
		if (n.size() > 4 && n.substr(n.size() - 4) == ".nif") out.push_back(n);
	}
	closedir(d);
	std::sort(out.begin(), out.end());
	return out;
}

const std::vector<Sample>& realSamples() {
	static std::vector<Sample> s;
	static bool done = false;
	if (done) return s;
	done = true;
	std::set<uint64_t> seen;
	for (const char* sub : {"tests/input", "tests/expected"}) {
		std::string dir = g_cfg.repo + "/" + sub;
		for (auto& n : listNifs(dir)) {
			std::string b = slurp(dir + "/" + n);
			if (b.empty() || !seen.insert(hashStr(b)).second) continue;
			s.push_back({std::string(sub + 6) + "/" + n, b});
		}
	}
	return s;
}
} // namespace vf
