#include "sources.hpp"
#include "indep_nif.hpp"
#include "gen.hpp"
#include <cfloat>

namespace vf {
using verif::FieldKind;

namespace {
struct MutBuf : std::streambuf, verif::SyncHooks {
	const std::string& src;
	size_t pos = 0;
	std::string out;
	Rng rng;
	bool hint = false;
	FieldKind kind{};
	size_t hsize = 0;
	bool floatStruct = false;
	long changed = 0;
	MutBuf(const std::string& s, uint64_t seed) : src(s), rng(seed) {}

	void Field(bool reading, FieldKind k, size_t sz, void*, const std::type_info* ti) override {
		if (!reading) return;
		if (hint && (kind == FieldKind::Count || kind == FieldKind::StrLen || kind == FieldKind::Half || kind == FieldKind::BlockRef || kind == FieldKind::StringRef)) return;
		hint = true;
		kind = k;
		hsize = sz;
		floatStruct = false;
		if (k == FieldKind::Struct && ti) {
			std::string n = demangle(ti->name());
			static const char* ok[] = {"nifly::Vector2", "nifly::Vector3", "nifly::Vector4", "nifly::Color3", "nifly::Color4", "nifly::Matrix3", "nifly::Quaternion", "nifly::BoundingSphere"};
			for (auto o : ok)
				if (n == o) floatStruct = true;
		}
	}
	void BlockRef(bool reading, NiRef*, const std::type_info*, std::streamsize) override { if (reading) { hint = true; kind = FieldKind::BlockRef; hsize = 4; } }
	void StringRef(bool reading, NiStringRef*, std::streamsize) override { if (reading) { hint = true; kind = FieldKind::StringRef; hsize = 4; } }

	float mut(float f) {
		if (f == 0.0f || !std::isfinite(f) || std::fabs(f) > 1e30f) return f;
		changed++;
		if (rng.coin()) return f * (0.5f + rng.unit());
		float m = std::min(std::fabs(f) * 2.0f + 0.5f, 1000.0f);
		float r = rng.range(-m, m);
		return r == 0.0f ? f : r;
	}
	std::streamsize xsgetn(char* s, std::streamsize n) override {
		if (n <= 0) return 0;
		size_t avail = std::min<size_t>((size_t)n, src.size() - pos);
		memcpy(s, src.data() + pos, avail);
		pos += avail;
		bool h = hint && hsize == (size_t)n && avail == (size_t)n;
		FieldKind k = kind;
		hint = false;
		if (h) {
			if (k == FieldKind::Float && n == 4) { float f; memcpy(&f, s, 4); f = mut(f); memcpy(s, &f, 4); }
			else if (k == FieldKind::Half && n == 2) {
				half_float::half hh;
				memcpy(&hh, s, 2);
				float f = hh;
				float g = mut(f);
				if (std::fabs(g) > 60000.f) g = f;
				half_float::half h2(g);
				memcpy(s, &h2, 2);
			}
			else if (k == FieldKind::Struct && floatStruct && n % 4 == 0) {
				for (std::streamsize i = 0; i < n; i += 4) { float f; memcpy(&f, s + i, 4); f = mut(f); memcpy(s + i, &f, 4); }
			}
		}
		out.append(s, avail);
		return (std::streamsize)avail;
	}
	int_type underflow() override { return pos < src.size() ? traits_type::to_int_type(src[pos]) : traits_type::eof(); }
	int_type uflow() override {
		if (pos >= src.size()) return traits_type::eof();
		out.push_back(src[pos]);
		return traits_type::to_int_type(src[pos++]);
	}
};
} // namespace

std::string mutateFloats(const std::string& bytes, uint64_t seed, long* changed) {
	MutBuf mb(bytes, seed);
	std::istream is(&mb);
	NifFile n;
	int rc;
	{
		HookScope hs(&mb);
		rc = n.Load(is);
	}
	if (rc != 0) return "";
	if (changed) *changed = mb.changed;
	return mb.out + bytes.substr(mb.pos);
}

Mesh randomMesh(Rng& rng, int nv, int nt, bool everyVertexUsed) {
	Mesh m;
	m.verts.resize((size_t)nv);
	m.uvs.resize((size_t)nv);
	m.normals.resize((size_t)nv);
	for (int i = 0; i < nv; i++) {
		m.verts[(size_t)i] = Vector3(rng.range(-10, 10), rng.range(-10, 10), rng.range(-10, 10));
		m.uvs[(size_t)i] = Vector2(rng.range(0, 1), rng.range(0, 1));
		Vector3 n(rng.range(-1, 1), rng.range(-1, 1), rng.range(-1, 1));
		if (n.length() < 0.1f) n = Vector3(0, 0, 1);
		n.Normalize();
		m.normals[(size_t)i] = n;
	}
	if (nv < 3) return m;
	std::set<std::tuple<int, int, int>> seen;
	auto add = [&](uint16_t a, uint16_t b, uint16_t c) {
		if (a == b || b == c || a == c) return false;
		Triangle t(a, b, c);
		Triangle r = t;
		r.rot();
		if (!seen.insert({r.p1, r.p2, r.p3}).second) return false;
		m.tris.push_back(t);
		return true;
	};
	if (everyVertexUsed) {
		for (int i = 0; i < nv; i += 3) {
			int a = i, b = (i + 1) % nv, c = (i + 2) % nv;
			if (i + 2 >= nv) { a = nv - 3; b = nv - 2; c = nv - 1; }
			add((uint16_t)a, (uint16_t)b, (uint16_t)c);
		}
	}
	int guard = 0;
	while ((int)m.tris.size() < nt && guard++ < nt * 20) add((uint16_t)rng.below((uint32_t)nv), (uint16_t)rng.below((uint32_t)nv), (uint16_t)rng.below((uint32_t)nv));
	if (m.tris.empty()) add(0, 1, 2);
	return m;
}

static MatTransform randomXform(Rng& rng) {
	MatTransform t;
	t.translation = Vector3(rng.range(-50, 50), rng.range(-50, 50), rng.range(-50, 50));
	Vector3 axisAngle(rng.range(-1.5f, 1.5f), rng.range(-1.5f, 1.5f), rng.range(-1.5f, 1.5f));
	t.rotation = RotVecToMat(axisAngle);
	t.scale = rng.coin(3) ? rng.range(0.5f, 2.0f) : 1.0f;
	return t;
}

ApiModel buildApiModel(uint64_t seed, int variant, const ApiOpts* optsIn) {
	ApiModel M;
	ApiOpts o = optsIn ? *optsIn : ApiOpts();
	Rng rng(mix(seed, 0xA91));
	static const char* VN[] = {"OB", "FO3", "SK", "SSE", "FO4", "FO76"};
	M.verName = o.version ? o.version : VN[variant % 6];
	const VerInfo* vi = findVer(M.verName);
	if (!vi) return M;
	NiVersion ver = toNiVersion(*vi);
	bool fo4 = ver.IsFO4() || ver.IsFO76();
	M.nif = std::make_unique<NifFile>();
	NifFile& nif = *M.nif;
	std::string history;
	if (o.usedObject) { Rng hr(mix(seed, 0x0B7EC7)); history = useObject(nif, hr); }
	nif.Create(ver);
	int nshapes = o.shapes > 0 ? o.shapes : 1 + (int)rng.below(3);
	std::ostringstream desc;
	desc << M.verName << " shapes=" << nshapes;
	for (int s = 0; s < nshapes; s++) {
		int nv = o.nv >= 0 ? o.nv : (rng.coin(8) ? 1 + (int)rng.below(3) : rng.coin(6) ? 100 + (int)rng.below(200) : 3 + (int)rng.below(60));
		int nt = o.nt >= 0 ? o.nt : 1 + (int)rng.below(80);
		Mesh mesh = randomMesh(rng, nv, nt, o.everyVertexUsed);
		std::string name = "shape" + std::to_string(s);
		bool withNormals = !rng.coin(5);
		auto shape = nif.CreateShapeFromData(name, &mesh.verts, &mesh.tris, &mesh.uvs, withNormals ? &mesh.normals : nullptr);
		if (!shape) return M;
		if (!withNormals) mesh.normals.clear();
		M.shapeNames.push_back(name);
		if (o.modelSpace)
			if (auto bsp = dynamic_cast<BSShaderProperty*>(nif.GetShader(shape))) bsp->shaderFlags1 |= SLSF1_MODEL_SPACE_NORMALS;
		bool colors = o.colors || rng.coin(4);
		if (colors) {
			std::vector<Color4> cols((size_t)nv);
			for (auto& c : cols) c = Color4(rng.unit(), rng.unit(), rng.unit(), rng.unit());
			if (o.wideColors) {
				static const float W[] = {-0.5f, -0.25f, -1.0f / 128.0f, 0.0f, 1.0f, 1.25f, 2.0f};
				for (auto& c : cols) {
					if (rng.coin(3)) c.r = W[rng.below(7)];
					if (rng.coin(4)) c.g = W[rng.below(7)];
					if (rng.coin(5)) c.a = W[rng.below(7)];
				}
			}
			nif.SetColorsForShape(shape, cols);
		}
		bool skinned = o.skinned >= 0 ? o.skinned == 1 : !rng.coin(3);
		if (nv < 3) skinned = false;
		std::vector<std::vector<std::pair<int, float>>> W((size_t)nv);
		int nb = 0;
		if (skinned) {
			nb = o.bones > 0 ? o.bones : (rng.coin(6) ? 30 + (int)rng.below(90) : 1 + (int)rng.below(24));
			nif.CreateSkinning(shape);
			std::vector<int> ids;
			for (int b = 0; b < nb; b++) {
				std::string bn = "S" + std::to_string(s) + "Bone" + std::to_string(b);
				auto node = nif.AddNode(bn, randomXform(rng));
				ids.push_back((int)nif.GetBlockID(node));
			}
			// CreateSkinning may have replaced blocks; fetch the shape again by name
			shape = nif.FindBlockByName<NiShape>(name);
			nif.SetShapeBoneIDList(shape, ids);
			for (int b = 0; b < nb; b++) nif.SetShapeTransformSkinToBone(shape, (uint32_t)b, randomXform(rng));
			int maxInf = std::min(o.maxInfluences, nb);
			for (int v = 0; v < nv; v++) {
				int k = 1 + (int)rng.below((uint32_t)maxInf);
				std::set<int> used;
				std::vector<int> ladder;
				for (int j = 0; j < 8; j++) ladder.push_back(j);
				for (int j = 7; j > 0; j--) std::swap(ladder[(size_t)j], ladder[rng.below((uint32_t)j + 1)]);
				for (int j = 0; j < k; j++) {
					int b = (int)rng.below((uint32_t)nb);
					if (!used.insert(b).second) continue;
					float w = o.distinctWeights ? 0.1f * (float)(1 + ladder[(size_t)j]) + rng.range(0.0f, 0.02f) : rng.range(0.05f, 1.0f);
					W[(size_t)v].push_back({b, w});
				}
				// normalise (the API normalises BSTriShape weights itself; NiSkinData keeps what it is given)
				float sum = 0;
				for (auto& p : W[(size_t)v]) sum += p.second;
				for (auto& p : W[(size_t)v]) p.second /= sum;
				std::sort(W[(size_t)v].begin(), W[(size_t)v].end(), [](auto& a, auto& b) { return a.second > b.second; });
			}
			if (!fo4) {
				std::vector<std::unordered_map<uint16_t, float>> bw((size_t)nb);
				for (int v = 0; v < nv; v++)
					for (auto& p : W[(size_t)v]) bw[(size_t)p.first][(uint16_t)v] = p.second;
				if (o.junkWeights && nb > 1) {
					static const float JUNK[] = {std::numeric_limits<float>::quiet_NaN(), -0.5f, 0.0f, 5e-5f, -std::numeric_limits<float>::quiet_NaN()};
					Rng jr(mix(seed, 0x7A2C + (uint64_t)s));
					for (int v = 0; v < nv; v++) {
						if (!jr.coin(5)) continue;
						int b = (int)jr.below((uint32_t)nb);
						if (bw[(size_t)b].count((uint16_t)v)) continue;   // only where the vertex has no real weight for that bone
						bw[(size_t)b][(uint16_t)v] = JUNK[jr.below(5)];
					}
				}
				for (int b = 0; b < nb; b++) nif.SetShapeBoneWeights(name, (uint32_t)b, bw[(size_t)b]);
			}
			if (fo4 || ver.IsSSE()) {
				for (int v = 0; v < nv; v++) {
					std::vector<uint8_t> bi;
					std::vector<float> ww;
					for (auto& p : W[(size_t)v]) { bi.push_back((uint8_t)p.first); ww.push_back(p.second); }
					if (!bi.empty()) nif.SetShapeVertWeights(name, (uint16_t)v, bi, ww);
				}
			}
			if (!fo4) {
				if (o.partitions && !mesh.tris.empty()) {
					NiVector<BSDismemberSkinInstance::PartitionInfo> pinf;
					std::vector<int> tp;
					nif.GetShapePartitions(shape, pinf, tp);
					int np = 1 + (int)rng.below(4);
					pinf.clear();
					for (int p = 0; p < np; p++) { BSDismemberSkinInstance::PartitionInfo pi; pi.flags = PF_EDITOR_VISIBLE; pi.partID = (uint16_t)(30 + p); pinf.push_back(pi); }
					tp.assign(mesh.tris.size(), 0);
					for (auto& x : tp) x = (int)rng.below((uint32_t)np);
					nif.SetShapePartitions(shape, pinf, tp);
				}
				nif.UpdateSkinPartitions(shape);
			}
		}
		if (fo4 && o.segments && !mesh.tris.empty()) {
			NifSegmentationInfo inf;
			int nseg = 1 + (int)rng.below(4);
			int pid = 0;
			std::vector<int> ids;
			for (int g = 0; g < nseg; g++) {
				NifSegmentInfo si;
				si.partID = pid++;
				ids.push_back(si.partID);
				int nsub = rng.coin() ? (int)rng.below(3) : 0;
				for (int u = 0; u < nsub; u++) { NifSubSegmentInfo ss; ss.partID = pid++; ss.userSlotID = 30 + (uint32_t)u; ss.material = 0xFFFFFFFFu; ids.push_back(ss.partID); si.subs.push_back(ss); }
				inf.segs.push_back(si);
			}
			std::vector<int> tp(mesh.tris.size());
			for (auto& x : tp) x = ids[rng.below((uint32_t)ids.size())];
			NifFile::SetShapeSegments(shape, inf, tp);
		}
		if (o.extras && rng.coin()) {
			auto ied = std::make_unique<NiIntegersExtraData>();
			ied->name.get() = "LOCKEDNORM";
			std::set<uint32_t> pick;
			for (int k = 0; k < 4 && nv > 0; k++) pick.insert(rng.below((uint32_t)nv));
			for (auto p : pick) { uint32_t x = p; ied->integersData.push_back(x); }
			nif.AssignExtraData(shape, std::move(ied));
		}
		M.meshes.push_back(mesh);
		M.boneCounts.push_back(nb);
		M.weights.push_back(W);
		desc << " [" << name << " nv=" << nv << " nt=" << mesh.tris.size() << " bones=" << nb << (colors ? " colors" : "") << "]";
	}
	if (o.extras) {
		if (rng.coin(3)) nif.AddNode("ExtraNode", randomXform(rng));
		if (rng.coin(4)) {
			// a loose block nobody references
			auto sed = std::make_unique<NiStringExtraData>();
			sed->name.get() = "loose";
			sed->stringData.get() = "NiOptimizeKeep";
			nif.GetHeader().AddBlock(std::move(sed));
		}
		if (rng.coin(3)) {
			auto bsx = std::make_unique<BSXFlags>();
			bsx->name.get() = "BSX";
			bsx->integerData = rng.below(256);
			nif.AssignExtraData(nif.GetRootNode(), std::move(bsx));
		}
	}
	if (o.portedTangentBlock && !ver.IsOB()) {
		for (auto& name : M.shapeNames)
			if (auto sh = nif.FindBlockByName<NiShape>(name)) {
				auto bed = std::make_unique<NiBinaryExtraData>();
				bed->name.get() = "Tangent space (binormal & tangent vectors)";
				bed->data.resize((size_t)sh->GetNumVertices() * 24);
				for (size_t i = 0; i < bed->data.size(); i++) bed->data[i] = (uint8_t)(i * 7 + 3);
				nif.AssignExtraData(sh, std::move(bed));
			}
		desc << " +ported tangent block";
	}
	if (o.collisionVolumes) {
		Rng cr(mix(seed, 0xC011));
		int k = 0;
		for (auto& name : M.shapeNames)
			if (auto sh = nif.FindBlockByName<NiShape>(name)) {
				auto cd = std::make_unique<NiCollisionData>();
				cd->useABV = true;
				auto fill = [&](BoundingVolume& bv, int kind) {
					static const BoundVolumeType T[] = {SPHERE_BV, BOX_BV, CAPSULE_BV, HALFSPACE_BV};
					bv.collisionType = T[kind % 4];
					bv.bvSphere = BoundingSphere(Vector3(cr.range(-5, 5), cr.range(-5, 5), cr.range(-5, 5)), cr.range(1, 9));
					bv.bvBox.center = Vector3(cr.range(-5, 5), 1, 2);
					bv.bvCapsule.center = Vector3(3, cr.range(-5, 5), 1);
					bv.bvHalfSpace.center = Vector3(cr.range(-5, 5), cr.range(-5, 5), 4.5f);
					bv.bvHalfSpace.plane.normal = Vector3(0, 0.6f, 0.8f);
					bv.bvHalfSpace.plane.constant = cr.range(1, 20);
				};
				int kind = k++ + (int)cr.below(5);
				if (kind % 5 == 4) {
					cd->boundingVolume.collisionType = UNION_BV;
					cd->boundingVolume.bvUnion->numBV = 2;
					cd->boundingVolume.bvUnion->boundingVolumes.resize(2);
					fill(cd->boundingVolume.bvUnion->boundingVolumes[0], 0);
					fill(cd->boundingVolume.bvUnion->boundingVolumes[1], 3);
				}
				else fill(cd->boundingVolume, kind);
				cd->targetRef.index = nif.GetBlockID(sh);
				uint32_t id = nif.GetHeader().AddBlock(std::move(cd));
				sh = nif.FindBlockByName<NiShape>(name);
				sh->collisionRef.index = id;
			}
		desc << " +collision volumes";
	}
	if (o.foreignBinaryExtraFirst) {
		for (auto& name : M.shapeNames)
			if (auto sh = nif.FindBlockByName<NiShape>(name)) {
				auto bed = std::make_unique<NiBinaryExtraData>();
				bed->name.get() = "Editor marker data";
				bed->data.resize(8);
				for (size_t i = 0; i < 8; i++) bed->data[i] = (uint8_t)(i + 1);
				nif.AssignExtraData(sh, std::move(bed));
			}
		desc << " +foreign binary extra data first";
	}
	if (o.tangents) {
		for (auto& name : M.shapeNames)
			if (auto sh = nif.FindBlockByName<NiShape>(name))
				if (sh->HasNormals() && sh->HasUVs() && sh->GetNumTriangles() > 0) nif.CalcTangentsForShape(sh);
		desc << " +tangents";
	}
	if (o.texturing && (ver.IsOB() || ver.IsFO3())) {
		Rng trng(mix(seed, 0x7E87));
		for (auto& name : M.shapeNames)
			if (auto sh = nif.FindBlockByName<NiShape>(name)) addTexturingProperty(nif, sh, trng, {});
		desc << " +texturing";
	}
	if (!history.empty()) desc << " {object " << history << "}";
	M.desc = desc.str();
	{
		NifFile cp(nif);
		M.bytes = saveNif(cp, false);
	}
	M.ok = true;
	return M;
}

} // namespace vf

namespace vf {
std::string sampleWithUnknownType(Rng& rng, std::string* desc) {
	auto& rs = realSamples();
	for (int tries = 0; tries < 20; tries++) {
		auto& s = rs[rng.below((uint32_t)rs.size())];
		indep::Header h = indep::parse(s.bytes);
		if (!h.ok || !h.hasSizes || h.types.size() < 2 || h.blocksEnd + 8 != s.bytes.size()) continue;
		indep::Header mod = h;
		size_t t = 1 + rng.below((uint32_t)h.types.size() - 1);
		mod.types[t] = "Xq" + mod.types[t];
		if (desc) *desc = s.name + " with " + h.types[t] + " unknown";
		return indep::withHeader(s.bytes, h, mod);
	}
	return "";
}

std::string useObject(NifFile& n, Rng& rng) {
	auto& rs = realSamples();
	switch (rng.below(3)) {
		case 0: {
			auto& s = rs[rng.below((uint32_t)rs.size())];
			loadNif(n, s.bytes);
			return "previously loaded " + s.name;
		}
		case 1: {
			std::string d;
			std::string b = sampleWithUnknownType(rng, &d);
			if (!b.empty()) { loadNif(n, b); return "previously loaded " + d; }
			return "fresh";
		}
		default: {
			n.Create(rng.coin() ? NiVersion::getSSE() : NiVersion::getFO4());
			n.AddNode("UsedBefore", MatTransform());
			auto sed = std::make_unique<NiStringExtraData>();
			sed->name.get() = "history";
			sed->stringData.get() = "left over";
			n.AssignExtraData(n.GetRootNode(), std::move(sed));
			n.AddNode("UsedBefore2", MatTransform());
			return "previously created (SSE/FO4, 4 blocks)";
		}
	}
}

int permutePartitionVertexMaps(NifFile& nif, Rng& rng) {
	int changed = 0;
	auto& hdr = nif.GetHeader();
	for (uint32_t b = 0; b < hdr.GetNumBlocks(); b++) {
		auto sp = hdr.GetBlock<NiSkinPartition>(b);
		if (!sp) continue;
		for (auto& p : sp->partitions) {
			size_t n = p.vertexMap.size();
			if (n < 2) continue;
			if (p.hasVertexWeights && p.vertexWeights.size() != n) continue;
			if (p.hasBoneIndices && p.boneIndices.size() != n) continue;
			std::vector<uint16_t> perm(n), posNew(n);
			for (size_t i = 0; i < n; i++) perm[i] = (uint16_t)i;
			for (size_t i = n; i > 1; i--) std::swap(perm[i - 1], perm[rng.below((uint32_t)i)]);
			for (size_t i = 0; i < n; i++) posNew[perm[i]] = (uint16_t)i;
			auto vm = p.vertexMap;
			auto vw = p.vertexWeights;
			auto bi = p.boneIndices;
			for (size_t i = 0; i < n; i++) {
				p.vertexMap[i] = vm[perm[i]];
				if (p.hasVertexWeights) p.vertexWeights[i] = vw[perm[i]];
				if (p.hasBoneIndices) p.boneIndices[i] = bi[perm[i]];
			}
			if (sp->bMappedIndices) {
				bool ok = true;
				for (auto& t : p.triangles) if (t.p1 >= n || t.p2 >= n || t.p3 >= n) ok = false;
				for (auto& st : p.strips) for (auto x : st) if (x >= n) ok = false;
				if (!ok) { p.vertexMap = vm; p.vertexWeights = vw; p.boneIndices = bi; continue; }
				for (auto& t : p.triangles) { t.p1 = posNew[t.p1]; t.p2 = posNew[t.p2]; t.p3 = posNew[t.p3]; }
				for (auto& st : p.strips) for (auto& x : st) x = posNew[x];
			}
			changed++;
		}
	}
	return changed;
}

NiShape* toStripsSameTriangles(NifFile& nif, NiShape* shape, Rng& rng) {
	auto& hdr = nif.GetHeader();
	auto tsd = hdr.GetBlock<NiTriShapeData>(shape->DataRef());
	auto ts = dynamic_cast<NiTriShape*>(shape);
	if (!tsd || !ts) return nullptr;
	std::vector<Triangle> tris;
	tsd->GetTriangles(tris);
	auto sd = std::make_unique<NiTriStripsData>();
	*static_cast<NiTriBasedGeomData*>(sd.get()) = *static_cast<NiTriBasedGeomData*>(tsd);
	for (auto& t : tris) {
		std::vector<uint16_t> strip;
		switch (rng.below(3)) {
			case 0: strip = {t.p1, t.p2, t.p3}; break;
			case 1: strip = {t.p1, t.p1, t.p3, t.p2}; break;   // position 1 (odd): emitted as (p[1], p[3], p[2]) = (p1, p2, p3)
			default: strip = {t.p1, t.p2, t.p3, t.p3}; break;
		}
		sd->stripsInfo.points.push_back(strip);
		uint16_t l = (uint16_t)strip.size();
		sd->stripsInfo.stripLengths.push_back(l);
	}
	auto strips = std::make_unique<NiTriStrips>();
	*static_cast<NiTriBasedGeom*>(strips.get()) = *static_cast<NiTriBasedGeom*>(ts);
	NiTriStripsData* sdRaw = sd.get();
	NiTriStrips* sRaw = strips.get();
	uint32_t dataId = nif.GetBlockID(tsd), shapeId = nif.GetBlockID(shape);
	hdr.ReplaceBlock(shapeId, std::move(strips));
	hdr.ReplaceBlock(dataId, std::move(sd));
	sRaw->SetGeomData(sdRaw);
	return sRaw;
}

int stripPartitions(NifFile& nif, Rng& rng) {
	int changed = 0;
	auto& hdr = nif.GetHeader();
	for (uint32_t b = 0; b < hdr.GetNumBlocks(); b++) {
		auto sp = hdr.GetBlock<NiSkinPartition>(b);
		if (!sp || !sp->bMappedIndices) continue;
		for (auto& p : sp->partitions) {
			if (p.numStrips || p.triangles.empty() || p.vertexMap.empty()) continue;
			std::vector<std::vector<uint16_t>> strips;
			size_t k = 0;
			while (k < p.triangles.size()) {
				const Triangle& t = p.triangles[k];
				uint32_t form = rng.below(4);
				if (form == 3 && k + 1 < p.triangles.size()) {
					// two triangles in one strip, stitched by degenerates; the second one sits at an odd position and is stored flipped
					const Triangle& u = p.triangles[k + 1];
					strips.push_back({t.p1, t.p2, t.p3, t.p3, u.p1, u.p1, u.p3, u.p2});
					k += 2;
					continue;
				}
				switch (form) {
					case 0: strips.push_back({t.p1, t.p2, t.p3}); break;
					case 1: strips.push_back({t.p1, t.p1, t.p3, t.p2}); break;
					default: strips.push_back({t.p1, t.p2, t.p3, t.p3}); break;
				}
				k++;
			}
			size_t count = 0;
			p.stripLengths.clear();
			for (auto& st : strips) { p.stripLengths.push_back((uint16_t)st.size()); count += st.size() - 2; }
			if (count > 65535 || strips.size() > 65535) { p.stripLengths.clear(); continue; }
			p.strips = std::move(strips);
			p.numStrips = (uint16_t)p.strips.size();
			p.numTriangles = (uint16_t)count;
			p.hasFaces = true;
			p.triangles.clear();
			p.trueTriangles.clear();
			changed++;
		}
		if (changed) sp->triParts.clear();
	}
	return changed;
}

int rotatePartitionTriangles(NifFile& nif, Rng& rng) {
	int changed = 0;
	auto& hdr = nif.GetHeader();
	for (uint32_t b = 0; b < hdr.GetNumBlocks(); b++) {
		auto sp = hdr.GetBlock<NiSkinPartition>(b);
		if (!sp || !sp->bMappedIndices) continue;
		bool any = false;
		for (auto& p : sp->partitions) {
			if (p.numStrips || p.triangles.empty()) continue;
			for (auto& t : p.triangles) {
				uint32_t k = rng.below(3);
				if (k == 1) t = Triangle(t.p2, t.p3, t.p1);
				else if (k == 2) t = Triangle(t.p3, t.p1, t.p2);
			}
			p.trueTriangles.clear();
			any = true;
			changed++;
		}
		if (any) sp->triParts.clear();
	}
	return changed;
}

NiShape* addLinesShape(NifFile& nif, const std::string& name, Rng& rng) {
	auto root = nif.GetRootNode();
	if (!root) return nullptr;
	auto& hdr = nif.GetHeader();
	std::vector<Vector3> pts(4 + rng.below(6));
	for (auto& p : pts) p = Vector3(rng.range(-8, 8), rng.range(-8, 8), rng.range(-8, 8));
	auto ld = std::make_unique<NiLinesData>();
	auto ldRaw = ld.get();
	ld->Create(hdr.GetVersion(), &pts, nullptr, nullptr, nullptr);
	ld->lineFlags.assign(pts.size(), true);
	uint32_t dataId = hdr.AddBlock(std::move(ld));
	auto ls = std::make_unique<NiLines>();
	auto lsRaw = ls.get();
	ls->name.get() = name;
	ls->DataRef()->index = dataId;
	ls->SetGeomData(ldRaw);
	uint32_t id = hdr.AddBlock(std::move(ls));
	root->childRefs.AddBlockRef(id);
	return lsRaw;
}

int dropPartitionFaces(NifFile& nif) {
	int changed = 0;
	auto& hdr = nif.GetHeader();
	if (!hdr.GetVersion().IsSSE()) return 0;
	for (uint32_t b = 0; b < hdr.GetNumBlocks(); b++) {
		auto sp = hdr.GetBlock<NiSkinPartition>(b);
		if (!sp || sp->bMappedIndices) continue;
		sp->PrepareTrueTriangles();
		for (auto& p : sp->partitions) {
			if (p.numStrips || p.trueTriangles.empty()) continue;
			p.hasFaces = false;
			changed++;
		}
	}
	return changed;
}

void addTexturingProperty(NifFile& nif, NiShape* shape, Rng& rng, const std::vector<std::string>& paths) {
	auto& hdr = nif.GetHeader();
	std::string name = shape->name.get();
	auto tp = std::make_unique<NiTexturingProperty>();
	tp->textureCount = hdr.GetVersion().File() >= V20_2_0_5 ? 12 : 10;   // from 20.2.0.5 on the last two decal slots are only stored when the count exceeds 10 / 11
	bool* has[10] = {&tp->hasBaseTex, &tp->hasDarkTex, &tp->hasDetailTex, &tp->hasGlossTex, &tp->hasGlowTex, &tp->hasBumpTex, &tp->hasDecalTex0, &tp->hasDecalTex1, &tp->hasDecalTex2, &tp->hasDecalTex3};
	TexDesc* td[10] = {&tp->baseTex, &tp->darkTex, &tp->detailTex, &tp->glossTex, &tp->glowTex, &tp->bumpTex, &tp->decalTex0, &tp->decalTex1, &tp->decalTex2, &tp->decalTex3};
	uint32_t mask = 1 + rng.below(1023);
	if (rng.coin(3)) mask = 1023;
	for (int k = 0; k < 10; k++) {
		if (!(mask & (1u << k))) continue;
		auto st = std::make_unique<NiSourceTexture>();
		st->fileName.get() = paths.empty() ? fmt("textures\\slot%d.dds", k) : paths[rng.below((uint32_t)paths.size())];
		*has[k] = true;
		td[k]->sourceRef.index = hdr.AddBlock(std::move(st));
	}
	uint32_t id = hdr.AddBlock(std::move(tp));
	if (auto s = nif.FindBlockByName<NiShape>(name)) s->propertyRefs.AddBlockRef(id);
}

std::string applyRandomEdits(NifFile& nif, Rng& rng, int n) {
	std::string log;
	auto& hdr = nif.GetHeader();
	for (int k = 0; k < n; k++) {
		auto shapes = nif.GetShapes();
		int op = (int)rng.below(16);
		switch (op) {
			case 0:
				if (!shapes.empty()) {
					auto s = shapes[rng.below((uint32_t)shapes.size())];
					std::string nn = "renamed" + std::to_string(rng.below(1000));
					log += "rename(" + s->name.get() + "->" + nn + ");";
					NifFile::RenameShape(s, nn);
				}
				break;
			case 1:
				if (shapes.size() > 1) {
					auto s = shapes[rng.below((uint32_t)shapes.size())];
					log += "deleteShape(" + s->name.get() + ");";
					nif.DeleteShape(s);
				}
				break;
			case 2: {
				std::string nn = "Node" + std::to_string(rng.below(1000));
				log += "addNode(" + nn + ");";
				nif.AddNode(nn, MatTransform());
				break;
			}
			case 3:
				if (auto root = nif.GetRootNode()) {
					auto sed = std::make_unique<NiStringExtraData>();
					sed->name.get() = "extra" + std::to_string(rng.below(50));
					sed->stringData.get() = rng.coin() ? "some new string" : "UPB";
					log += "assignExtraData(" + sed->name.get() + ");";
					NiAVObject* target = root;
					if (!shapes.empty() && rng.coin()) target = shapes[rng.below((uint32_t)shapes.size())];
					nif.AssignExtraData(target, std::move(sed));
				}
				break;
			case 4:
				if (!shapes.empty()) {
					auto s = shapes[rng.below((uint32_t)shapes.size())];
					uint16_t nv = s->GetNumVertices();
					if (nv > 3) {
						std::vector<uint16_t> del;
						for (uint16_t i = 0; i < nv; i++)
							if (rng.coin(5)) del.push_back(i);
						if (!del.empty() && del.size() < nv) {
							log += fmt("deleteVerts(%s,%zu of %u);", s->name.get().c_str(), del.size(), nv);
							nif.DeleteVertsForShape(s, del);
						}
					}
				}
				break;
			case 5:
				if (!shapes.empty()) {
					auto s = shapes[rng.below((uint32_t)shapes.size())];
					std::string tex = rng.coin() ? "textures\\new\\t" + std::to_string(rng.below(100)) + ".dds" : "";
					uint32_t slot = rng.below(3);
					log += fmt("setTexture(%s,%u);", s->name.get().c_str(), slot);
					nif.SetTextureSlot(s, tex, slot);
				}
				break;
			case 6:
				if (hdr.GetNumBlocks() > 2) {
					uint32_t id = 1 + rng.below(hdr.GetNumBlocks() - 1);
					// a shape caches a raw pointer to its geometry data block; deleting that block behind the shape's back is
					// outside what these workloads are about (see the C06 finding), shapes are deleted through DeleteShape
					if (hdr.GetBlock<NiGeometryData>(id)) break;
					log += fmt("deleteBlock(%u:%s);", id, hdr.GetBlockTypeStringById(id).c_str());
					hdr.DeleteBlock(id);
				}
				break;
			case 7:
				if (!shapes.empty() && shapes.size() < 6) {
					auto s = shapes[rng.below((uint32_t)shapes.size())];
					std::string nn = s->name.get() + "_clone" + std::to_string(rng.below(100));
					log += "cloneShape(" + s->name.get() + ");";
					nif.CloneShape(s, nn);
				}
				break;
			case 8:
				if (!shapes.empty()) {
					auto s = shapes[rng.below((uint32_t)shapes.size())];
					std::vector<Vector3> v;
					if (nif.GetVertsForShape(s, v) && !v.empty()) {
						for (auto& p : v) p.x += 0.5f;
						log += "moveVerts(" + s->name.get() + ");";
						nif.SetVertsForShape(s, v);
					}
				}
				break;
			case 9: log += "deleteUnreferenced;"; nif.DeleteUnreferencedBlocks(); break;
			case 10: log += "prettySort;"; nif.PrettySortBlocks(); break;
			case 15:
				// match groups of a NiTriShapeData (groups of vertices that share a position; the library offers a setter)
				for (auto s : shapes)
					if (auto td = dynamic_cast<NiTriShapeData*>(s->GetGeomData())) {
						if (td->GetNumVertices() < 3) continue;
						std::vector<MatchGroup> mg(1 + rng.below(2));
						for (auto& g : mg) { g.count = 2; g.matches = {(uint16_t)rng.below(td->GetNumVertices()), (uint16_t)rng.below(td->GetNumVertices())}; }
						td->SetMatchGroups(mg);
						log += "setMatchGroups(" + s->name.get() + ");";
						break;
					}
				break;
			case 14:
				// per-vertex eye data (BSTriShape family; a BSDynamicTriShape recomputes it from the positions when it is saved)
				for (auto s : shapes)
					if (auto bs = dynamic_cast<BSTriShape*>(s)) {
						std::vector<float> eye(bs->GetNumVertices());
						for (auto& e : eye) e = rng.range(-1, 1);
						if (!eye.empty()) { NifFile::SetEyeDataForShape(s, eye); log += "setEyeData(" + s->name.get() + ");"; }
						break;
					}
				break;
			case 12:
			case 13: {
				// detach: clear one non-empty owning reference of a random block; whatever hung below it becomes a loose sub-graph
				// (in sorted files such sub-graphs are stored child-before-parent, e.g. Havok collision trees)
				uint32_t nb = hdr.GetNumBlocks();
				for (int tries = 0; tries < 8 && nb > 1; tries++) {
					uint32_t id = rng.below(nb);
					auto o = hdr.GetBlock<NiObject>(id);
					if (!o || o->HasType<NiShape>()) continue;   // a shape keeps a raw pointer to its data block (see the C06 finding)
					std::set<NiRef*> refs;
					o->GetChildRefs(refs);
					std::vector<NiRef*> live;
					for (auto r : refs)
						if (!r->IsEmpty() && r->index < nb && !hdr.GetBlock<NiGeometryData>(r->index)) live.push_back(r);
					if (live.empty()) continue;
					std::sort(live.begin(), live.end(), [](NiRef* a, NiRef* b) { return a->index < b->index; });
					NiRef* r = live[rng.below((uint32_t)live.size())];
					log += fmt("detach(%u:%s -> %u:%s);", id, hdr.GetBlockTypeStringById(id).c_str(), r->index, hdr.GetBlockTypeStringById(r->index).c_str());
					r->Clear();
					break;
				}
				break;
			}
			case 11:
				if (!shapes.empty()) {
					auto s = shapes[rng.below((uint32_t)shapes.size())];
					auto ap = std::make_unique<NiAlphaProperty>();
					log += "assignAlpha(" + s->name.get() + ");";
					nif.AssignAlphaProperty(s, std::move(ap));
				}
				break;
		}
	}
	return log;
}
} // namespace vf
