// C05 — every serialised block / string reference is enumerated by its owner.
// For every registered block type x version, populated instances are synthesised through the typed
// read hook; the NiRef / NiStringRef objects that actually pass through Sync during Get and during Put
// are compared with GetChildRefs U GetPtrs and GetStringRefs of the same object.
#include "gen.hpp"

namespace {
using namespace vf;

struct Rec : verif::SyncHooks {
	std::vector<std::pair<NiRef*, std::string>> refs;
	std::vector<NiStringRef*> strs;
	void BlockRef(bool, NiRef* r, const std::type_info* t, std::streamsize) override {
		std::string n = demangle(t->name());
		if (!n.empty() && n.back() == '*') n.pop_back();
		refs.push_back({r, n});
	}
	void StringRef(bool, NiStringRef* s, std::streamsize) override { strs.push_back(s); }
};

int instances() { return g_cfg.tier ? 60 : 24; }

void run(size_t idx) {
	const TypeDB& db = typeDB();
	size_t vi = idx / db.names.size(), ti = idx % db.names.size();
	const VerInfo& v = verAt(vi);
	const std::string& name = db.names[ti];
	R_caseDesc(std::string(v.n) + "/" + name);
	bool indexStrings = v.file >= 0x14010003;
	long nontrivial = 0;
	for (int it = 0; it < instances(); it++) {
		GenOpts o;
		o.maxCount = 1 + it % 3;
		o.minCount = (it % 4 != 3) ? 1 : 0;          // arrays forced non-empty in 3 of 4 instances
		o.boolBias = it % 3;                          // optional sections: fair / mostly on / mostly off
		NiHeader hdr;
		std::vector<std::unique_ptr<NiObject>> blocks;
		hdr.SetVersion(toNiVersion(v));
		hdr.SetBlockReference(&blocks);
		for (int i = 0; i < NDICT; i++) hdr.AddOrFindStringId(DICT[i], true);
		std::string payload;
		uint64_t seed = mix(mix(g_cfg.seed, hashStr(name)), (uint64_t)vi * 1000 + (uint64_t)it);
		auto gobj = synthBlock(v, name, seed, o, hdr, &payload);
		if (!gobj) { R_stat("generator_overflow"); continue; }
		R_eval();

		// read side: re-read the recorded payload with a recorder installed
		Rec rr;
		std::unique_ptr<NiObject> obj = db.create(name);
		{
			std::istringstream is(payload, std::ios::binary);
			NiIStream nis(&is, &hdr);
			HookScope hs(&rr);
			obj->Get(nis);
		}
		std::set<NiRef*> en;
		obj->GetChildRefs(en);
		std::set<NiRef*> childOnly = en;
		obj->GetPtrs(en);
		{
			// the header renumbers child refs and ptrs in two passes (SetBlockOrder): a reference reported by both would be renumbered twice
			std::set<NiRef*> ptrOnly;
			obj->GetPtrs(ptrOnly);
			for (auto r : ptrOnly)
				if (childOnly.count(r)) { R_viol("ref-enumerated-twice", name, fmt("%s instance %d: a reference field is reported by GetChildRefs and by GetPtrs", v.n, it)); break; }
		}
		std::vector<NiStringRef*> sv;
		obj->GetStringRefs(sv);
		std::set<NiStringRef*> es(sv.begin(), sv.end());

		// secondary oracle: GetChildIndices lists exactly the indices of GetChildRefs
		{
			std::vector<uint32_t> ci;
			obj->GetChildIndices(ci);
			std::multiset<uint32_t> a(ci.begin(), ci.end()), b;
			for (auto r : childOnly) b.insert(r->index);
			if (a != b)
				R_viol("childindices-vs-childrefs", name, fmt("%s instance %d: GetChildIndices has %zu entries, GetChildRefs %zu", v.n, it, a.size(), b.size()));
		}

		// write side
		Rec rw;
		{
			std::ostringstream os(std::ios::binary);
			NiOStream nos(&os, &hdr);
			HookScope hs(&rw);
			obj->Put(nos);
		}
		std::set<NiRef*> en2;
		obj->GetChildRefs(en2);
		obj->GetPtrs(en2);
		std::vector<NiStringRef*> sv2;
		obj->GetStringRefs(sv2);
		std::set<NiStringRef*> es2(sv2.begin(), sv2.end());

		std::set<std::string> reported;
		for (auto& [r, cls] : rr.refs)
			if (!en.count(r) && reported.insert("r" + cls).second)
				R_viol("ref-not-enumerated", name + "/ref->" + cls, fmt("%s instance %d (read): a NiBlockRef<%s> passed through Sync but is in neither GetChildRefs nor GetPtrs", v.n, it, cls.c_str()));
		for (auto& [r, cls] : rw.refs)
			if (!en.count(r) && !en2.count(r) && reported.insert("r" + cls).second)
				R_viol("ref-not-enumerated", name + "/ref->" + cls, fmt("%s instance %d (write): a NiBlockRef<%s> passed through Sync but is in neither GetChildRefs nor GetPtrs", v.n, it, cls.c_str()));
		if (indexStrings) {
			bool rep = false;
			for (auto s : rr.strs)
				if (!es.count(s) && !rep) { rep = true; R_viol("string-not-enumerated", name + "/string", fmt("%s instance %d (read): a NiStringRef index was read but is not in GetStringRefs", v.n, it)); }
			for (auto s : rw.strs)
				if (!es.count(s) && !es2.count(s) && !rep) { rep = true; R_viol("string-not-enumerated", name + "/string", fmt("%s instance %d (write): a NiStringRef index was written but is not in GetStringRefs", v.n, it)); }
		}
		R_stat("block_refs_observed", (long)(rr.refs.size() + rw.refs.size()));
		R_stat("string_refs_observed", (long)(rr.strs.size() + rw.strs.size()));
		if (!rr.refs.empty() || !rr.strs.empty()) {
			nontrivial++;
			R_cover(fmt("%s/%s/%016llx", v.n, name.c_str(), (unsigned long long)hashStr(payload)));
		}
		if (it == 1 && (ti % 97) == 0 && !rr.refs.empty())
			R_sample(fmt("{\"version\":\"%s\",\"type\":\"%s\",\"payload_bytes\":%zu,\"block_refs_in_sync\":%zu,\"string_refs_in_sync\":%zu,\"enumerated_refs\":%zu,\"payload_head\":\"%s\"}", v.n,
						 name.c_str(), payload.size(), rr.refs.size(), rr.strs.size(), en.size(), hexs(payload, 24).c_str()));
	}
	R_stat(nontrivial ? "type_version_pairs_with_refs" : "type_version_pairs_without_any_ref_or_string");
}

MonReg reg({"C05", "exploration",
			"all 304 registered block types x 36 versions (14 + 22 Fallout 3 range streams); per pair 8 (quick) / 60 (thorough) populated instances synthesised by answering the library's own reader through the typed "
			"read hook (arrays forced non-empty in 3 of 4, optional sections biased on/off/fair). Events: every NiRef*/NiStringRef* passing through NiBlockRef<T>::Sync / "
			"NiStringRef::Read|Write during Get and Put. Oracle: each is a member of GetChildRefs U GetPtrs (and of only one of the two) resp. GetStringRefs (string indices only from 20.1.0.3), and the multiset "
			"of GetChildIndices equals the indices of GetChildRefs. Non-trivial = instance that serialises at least one reference or string; distinct by (version,type,payload hash).",
			[] { return typeDB().names.size() * nAllVers(); }, run, 40, 60.0, false, true, nullptr});
} // namespace
