// C06 — block-graph edits keep every reference on its target and the header consistent.
// Every single edit is applied to the real NiHeader/NifFile and to an executable reference model of an
// indexed object graph (objects by identity, slots -> designated object); after each edit the library's
// enumerated reference slots, block order and header accessors must agree with the model.  At the end of a
// sequence the model is saved, parsed independently and reloaded.
#include "graphsnap.hpp"
#include "oracles.hpp"
#include "sources.hpp"

namespace {
using namespace vf;

enum OpKind { ADD, DEL, REPLACE, ORDER, DELTYPE, DELUNREF_HDR, DELUNREF_NIF, DELREF };
struct OpSpec { OpKind k; uint32_t a = 0, b = 0; std::string name; bool flag = false; };

std::string opStr(const OpSpec& o) {
	switch (o.k) {
		case ADD: return fmt("AddBlock(kind %u,seed %u)", o.a, o.b);
		case DEL: return fmt("DeleteBlock(%u)", o.a);
		case REPLACE: return fmt("ReplaceBlock(%u,kind %u)", o.a, o.b);
		case ORDER: return fmt("SetBlockOrder(perm %u)", o.a);
		case DELTYPE: return "DeleteBlockByType(" + o.name + (o.flag ? ",orphanedOnly)" : ")");
		case DELUNREF_HDR: return fmt("hdr.DeleteUnreferencedBlocks<%s>(root %u)", o.flag ? "NiNode" : "NiObject", o.a);
		case DELUNREF_NIF: return fmt("nif.DeleteUnreferencedBlocks<%s>()", o.flag ? "NiExtraData" : "NiObject");
		case DELREF: return fmt("DeleteBlock(reference slot %u of block %u)", o.b, o.a);
	}
	return "?";
}

// a fresh block whose reference slots designate blocks of the current model
std::unique_ptr<NiObject> makeBlock(uint32_t kind, uint32_t seed, uint32_t n) {
	Rng r(mix(seed, kind + 77));
	auto pick = [&]() -> uint32_t { return (n == 0 || r.coin(4)) ? NIF_NPOS : r.below(n); };
	switch (kind % 4) {
		case 0: {
			auto node = std::make_unique<NiNode>();
			node->name.get() = "added" + std::to_string(seed % 100);
			uint32_t c = r.below(4);
			for (uint32_t i = 0; i < c; i++) node->childRefs.AddBlockRef(pick());
			if (r.coin()) node->extraDataRefs.AddBlockRef(pick());
			node->controllerRef.index = pick();
			node->collisionRef.index = pick();
			return node;
		}
		case 1: {
			auto sed = std::make_unique<NiStringExtraData>();
			sed->name.get() = "sed" + std::to_string(seed % 100);
			sed->stringData.get() = "text";
			return sed;
		}
		case 2: {
			auto si = std::make_unique<NiSkinInstance>();
			si->dataRef.index = pick();
			si->skinPartitionRef.index = pick();
			si->targetRef.index = pick();
			uint32_t c = r.below(4);
			for (uint32_t i = 0; i < c; i++) si->boneRefs.AddBlockRef(pick());
			return si;
		}
		default: {
			auto tc = std::make_unique<NiTransformController>();
			tc->targetRef.index = pick();
			tc->nextControllerRef.index = pick();
			tc->interpolatorRef.index = pick();
			return tc;
		}
	}
}

struct Model {
	std::vector<NiObject*> order;
	std::map<NiObject*, std::map<NiRef*, NiObject*>> slots;   // owner -> slot -> designated object (nullptr: empty / out of range)
	std::map<NiObject*, std::string> type;                   // captured while the object is alive (the library frees deleted blocks)
	std::set<NiObject*> nodes, extras;
	void addOwner(NiObject* o) {
		type[o] = o->GetBlockName();
		if (dynamic_cast<NiNode*>(o)) nodes.insert(o);
		if (dynamic_cast<NiExtraData*>(o)) extras.insert(o);
		std::set<NiRef*> refs;
		o->GetChildRefs(refs);
		o->GetPtrs(refs);
		auto& m = slots[o];
		for (auto r : refs) m[r] = r->index < order.size() ? order[r->index] : nullptr;
	}
	bool referenced(NiObject* o) const {
		for (auto& kv : slots)
			for (auto& s : kv.second)
				if (s.second == o) return true;
		return false;
	}
	void del(size_t k) {
		NiObject* o = order[k];
		order.erase(order.begin() + (long)k);
		slots.erase(o);
		for (auto& kv : slots)
			for (auto& s : kv.second)
				if (s.second == o) s.second = nullptr;
	}
};

Model buildModel(NifFile& nif) {
	Model m;
	auto& hdr = nif.GetHeader();
	for (uint32_t i = 0; i < hdr.GetNumBlocks(); i++) m.order.push_back(hdr.GetBlock<NiObject>(i));
	for (auto o : m.order)
		if (o) m.addOwner(o);
	return m;
}

// compares the library state with the model; returns "" or a description; `site` gets a short class
std::string compareState(NifFile& nif, const Model& m, std::string& site) {
	auto& hdr = nif.GetHeader();
	uint32_t n = hdr.GetNumBlocks();
	if (n != m.order.size()) { site = "block-count"; return fmt("header reports %u blocks, model has %zu", n, m.order.size()); }
	std::set<NiObject*> seen;
	bool sized = hdr.GetVersion().File() >= V20_2_0_5;
	std::map<uint16_t, std::string> typeOfIndex;
	for (uint32_t i = 0; i < n; i++) {
		NiObject* o = hdr.GetBlock<NiObject>(i);
		if (!o) { site = "null-block"; return fmt("block %u is null", i); }
		if (!seen.insert(o).second) { site = "duplicate-block"; return fmt("block %u appears twice", i); }
		if (o != m.order[i]) { site = "block-position"; return fmt("block %u is a %s, the model expects %s there", i, o->GetBlockName(), m.order[i] ? m.order[i]->GetBlockName() : "null"); }
		if (hdr.GetBlockTypeStringById(i) != o->GetBlockName()) { site = "header-type-name"; return fmt("header calls block %u '%s', object is %s", i, hdr.GetBlockTypeStringById(i).c_str(), o->GetBlockName()); }
		uint16_t ti = hdr.GetBlockTypeIndex(i);
		if (ti == 0xFFFF) { site = "header-type-index"; return fmt("block %u has no type index", i); }
		auto it = typeOfIndex.find(ti);
		if (it == typeOfIndex.end()) typeOfIndex[ti] = o->GetBlockName();
		else if (it->second != o->GetBlockName()) { site = "header-type-index"; return fmt("type index %u names both %s and %s", ti, it->second.c_str(), o->GetBlockName()); }
		if (sized && hdr.GetBlockSize(i) == NIF_NPOS) { site = "header-size-table"; return fmt("no size entry for block %u", i); }
	}
	// type indices dense (no unused names in front of used ones) and names unique
	{
		std::set<std::string> names;
		uint16_t k = 0;
		for (auto& kv : typeOfIndex) {
			if (kv.first != k++) { site = "type-table-unused-name"; return fmt("type index %u is used by no block (unused type name left in the table)", (unsigned)(k - 1)); }
			if (!names.insert(kv.second).second) { site = "type-table-duplicate-name"; return "type name " + kv.second + " has two entries"; }
		}
	}
	for (uint32_t i = 0; i < n; i++) {
		NiObject* o = m.order[i];
		std::set<NiRef*> refs;
		o->GetChildRefs(refs);
		o->GetPtrs(refs);
		auto ms = m.slots.find(o);
		if (ms == m.slots.end() || ms->second.size() != refs.size()) { site = std::string("slot-set/") + o->GetBlockName(); return fmt("block %u (%s) enumerates %zu slots, model has %zu", i, o->GetBlockName(), refs.size(), ms == m.slots.end() ? 0 : ms->second.size()); }
		for (auto r : refs) {
			auto it = ms->second.find(r);
			if (it == ms->second.end()) { site = std::string("slot-set/") + o->GetBlockName(); return fmt("block %u (%s) enumerates a slot the model does not know", i, o->GetBlockName()); }
			NiObject* lib = r->index < n ? hdr.GetBlock<NiObject>(r->index) : nullptr;
			if (lib != it->second) {
				site = std::string("slot-target/") + o->GetBlockName();
				return fmt("a slot of block %u (%s) holds index %u = %s, the model expects %s", i, o->GetBlockName(), r->index, lib ? lib->GetBlockName() : "<nothing>", it->second ? it->second->GetBlockName() : "<empty>");
			}
		}
	}
	site.clear();
	return "";
}

// applies op to library and model; false when the op is not applicable in this state
bool applyOp(NifFile& nif, Model& m, const OpSpec& op) {
	auto& hdr = nif.GetHeader();
	uint32_t n = hdr.GetNumBlocks();
	switch (op.k) {
		case ADD: {
			auto b = makeBlock(op.a, op.b, n);
			NiObject* raw = b.get();
			hdr.AddBlock(std::move(b));
			m.order.push_back(raw);
			m.addOwner(raw);
			return true;
		}
		case DEL:
			if (op.a >= n) return false;
			hdr.DeleteBlock(op.a);
			m.del(op.a);
			return true;
		case DELREF: {
			// the overload that takes a reference object, called with a reference that lives inside a block of the model (the way
			// DeleteShape / DeleteShader / DeleteSkinning call it): same effect as deleting the designated index
			if (op.a >= n) return false;
			std::set<NiRef*> rs;
			m.order[op.a]->GetChildRefs(rs);
			m.order[op.a]->GetPtrs(rs);
			std::vector<NiRef*> live;
			for (auto r : rs) if (r->index < n) live.push_back(r);
			if (live.empty()) return false;
			std::sort(live.begin(), live.end(), [](NiRef* x, NiRef* y) { return x->index != y->index ? x->index < y->index : x < y; });
			NiRef* r = live[op.b % live.size()];
			uint32_t target = r->index;
			if (hdr.GetBlock<NiGeometryData>(target)) return false;   // recorded finding about the cached geometry pointer, exercised by the witness
			hdr.DeleteBlock(*r);
			m.del(target);
			return true;
		}
		case REPLACE: {
			if (op.a >= n) return false;
			auto b = makeBlock(op.b, op.a + 1000, n);
			NiObject* raw = b.get();
			NiObject* old = m.order[op.a];
			hdr.ReplaceBlock(op.a, std::move(b));
			m.order[op.a] = raw;
			m.slots.erase(old);
			for (auto& kv : m.slots)
				for (auto& s : kv.second)
					if (s.second == old) s.second = raw;
			m.addOwner(raw);
			return true;
		}
		case ORDER: {
			if (n < 2) return false;
			std::vector<uint32_t> perm(n);
			for (uint32_t i = 0; i < n; i++) perm[i] = i;
			switch (op.a % 4) {
				case 0: std::reverse(perm.begin(), perm.end()); break;
				case 1: std::rotate(perm.begin(), perm.begin() + 1, perm.end()); break;
				case 2: std::swap(perm[0], perm[1]); break;
				default: { Rng r(mix(op.b, n)); for (uint32_t i = n; i > 1; i--) std::swap(perm[i - 1], perm[r.below(i)]); }
			}
			std::vector<NiObject*> o2(n);
			for (uint32_t i = 0; i < n; i++) o2[perm[i]] = m.order[i];
			hdr.SetBlockOrder(perm);
			m.order = o2;
			return true;
		}
		case DELTYPE: {
			bool any = false;
			for (auto o : m.order)
				if (op.name == o->GetBlockName()) any = true;
			if (!any) return false;
			hdr.DeleteBlockByType(op.name, op.flag);
			for (size_t i = m.order.size(); i-- > 0;)
				if (op.name == m.type[m.order[i]] && (!op.flag || !m.referenced(m.order[i]))) m.del(i);
			return true;
		}
		case DELUNREF_HDR: {
			if (op.a >= n) return false;
			NiObject* root = m.order[op.a];
			uint32_t cnt = 0;
			if (op.flag) hdr.DeleteUnreferencedBlocks<NiNode>(op.a, &cnt);
			else hdr.DeleteUnreferencedBlocks<NiObject>(op.a, &cnt);
			bool again = true;
			uint32_t mc = 0;
			while (again) {
				again = false;
				for (size_t i = 0; i < m.order.size(); i++) {
					NiObject* o = m.order[i];
					if (o == root) continue;
					if (op.flag && !m.nodes.count(o)) continue;
					if (!m.referenced(o)) { m.del(i); mc++; again = true; break; }
				}
			}
			if (mc != cnt) R_viol("deletion-count", "DeleteUnreferencedBlocks", fmt("library reports %u deleted blocks, model deleted %u", cnt, mc));
			return true;
		}
		case DELUNREF_NIF: {
			NiObject* root = nif.GetRootNode();
			uint32_t cnt = op.flag ? nif.DeleteUnreferencedBlocks<NiExtraData>() : nif.DeleteUnreferencedBlocks<NiObject>();
			uint32_t mc = 0;
			if (root && !nif.HasUnknown()) {
				bool again = true;
				while (again) {
					again = false;
					for (size_t i = 0; i < m.order.size(); i++) {
						NiObject* o = m.order[i];
						if (o == root) continue;
						if (op.flag && !m.extras.count(o)) continue;
						if (!m.referenced(o)) { m.del(i); mc++; again = true; break; }
					}
				}
			}
			if (mc != cnt) R_viol("deletion-count", "NifFile::DeleteUnreferencedBlocks", fmt("library reports %u deleted blocks, model deleted %u", cnt, mc));
			return true;
		}
	}
	return false;
}

// one checked step: model from the (already verified) library state, apply, compare
// second, independent view for the random sequences: the reference slots a block *serialises* (recorded by the write hook on a clone),
// whether or not its enumerators report them.  Every slot of a surviving block designates the object it designated before the edit,
// or nothing when that object was deleted.
static bool g_serialisedSlotsToo = false;
std::string serialisedSlotsKept(const GraphSnap& g0, const GraphSnap& g1, std::string& site) {
	std::set<NiObject*> alive;
	for (auto& b : g1.blocks) if (b.obj) alive.insert(b.obj);
	for (auto& a : g0.blocks) {
		if (!a.obj || !alive.count(a.obj)) continue;
		const BlockSnap& b = g1.blocks[g1.index.at(a.obj)];
		std::vector<NiObject*> ta, tb;
		for (auto t : a.slotTarget) if (t && alive.count(t)) ta.push_back(t);
		for (auto t : b.slotTarget) if (t) tb.push_back(t);
		if (ta != tb) {
			site = "serialised-slot/" + a.type;
			size_t k = 0;
			while (k < ta.size() && k < tb.size() && ta[k] == tb[k]) k++;
			auto nm = [&](const GraphSnap& g, NiObject* o) { return o && g.has(o) ? g.blocks[g.index.at(o)].type + fmt("#%zu", g.index.at(o)) : std::string("nothing"); };
			return fmt("%s: serialised reference %zu designated %s before the edit and designates %s afterwards (%zu / %zu non-empty slots)", a.type.c_str(), k, k < ta.size() ? nm(g0, ta[k]).c_str() : "nothing",
					   k < tb.size() ? nm(g1, tb[k]).c_str() : "nothing", ta.size(), tb.size());
		}
	}
	return "";
}

bool step(NifFile& nif, const OpSpec& op, const std::string& hist) {
	Model m = buildModel(nif);
	R_phase(opStr(op).c_str());
	bool serial = g_serialisedSlotsToo && op.k != REPLACE && nif.GetHeader().GetNumBlocks() <= 160;
	GraphSnap g0;
	if (serial) g0 = snapshotGraph(nif);
	if (!applyOp(nif, m, op)) return true;
	R_eval();
	R_stat("edits_checked");
	if (serial) {
		GraphSnap g1 = snapshotGraph(nif);
		std::string ssite;
		std::string serr = serialisedSlotsKept(g0, g1, ssite);
		R_stat("edits_with_serialised_slots_compared");
		if (!serr.empty()) {
			const char* kn2[] = {"AddBlock", "DeleteBlock", "ReplaceBlock", "SetBlockOrder", "DeleteBlockByType", "DeleteUnreferencedBlocks", "NifFile::DeleteUnreferencedBlocks", "DeleteBlock(NiRef)"};
			R_viol("edit-vs-model", std::string(kn2[op.k]) + "/" + ssite, hist + " -> " + opStr(op) + ": " + serr);
			return false;
		}
	}
	std::string site;
	std::string err = compareState(nif, m, site);
	if (!err.empty()) {
		const char* kn[] = {"AddBlock", "DeleteBlock", "ReplaceBlock", "SetBlockOrder", "DeleteBlockByType", "DeleteUnreferencedBlocks", "NifFile::DeleteUnreferencedBlocks", "DeleteBlock(NiRef)"};
		R_viol("edit-vs-model", std::string(kn[op.k]) + "/" + site, hist + " -> " + opStr(op) + ": " + err);
		return false;
	}
	return true;
}

// NifFile::DeleteShape on one shape of the model: the shape goes, together with (part of) what it owns; every block outside the shape's
// owned sub-graph stays, and every surviving reference designates what it designated before
bool deleteShapeCheck(NifFile& nif, const std::string& hist, Rng& rng) {
	auto shapes = nif.GetShapes();
	if (shapes.empty()) return true;
	NiShape* S = shapes[rng.below((uint32_t)shapes.size())];
	std::string sname = S->name.get();
	GraphSnap g0 = snapshotGraph(nif);
	if (!g0.has(S)) return true;
	std::set<NiObject*> owned{S};
	std::vector<NiObject*> todo{S};
	while (!todo.empty()) {
		NiObject* o = todo.back();
		todo.pop_back();
		for (auto t : g0.blocks[g0.index.at(o)].refTargets)
			if (t && owned.insert(t).second) todo.push_back(t);
	}
	// blocks shared with the rest of the model are outside this workload (what happens to them is the library's policy)
	for (auto& b : g0.blocks)
		if (b.obj && !owned.count(b.obj))
			for (auto t : b.refTargets)
				if (t && t != S && owned.count(t)) { R_stat("delete_shape_skipped_shared_children"); return true; }
	R_phase("DeleteShape");
	R_eval();
	nif.DeleteShape(S);
	GraphSnap g1 = snapshotGraph(nif);
	std::string what = hist + " -> nif.DeleteShape('" + sname + "', block " + std::to_string(g0.index.at(S)) + " of " + std::to_string(g0.blocks.size()) + ")";
	if (g1.has(S)) { R_viol("edit-vs-model", "DeleteShape/shape-still-present", what + ": the shape is still in the model"); return false; }
	for (auto& b : g0.blocks)
		if (b.obj && !owned.count(b.obj) && !g1.has(b.obj)) {
			R_viol("edit-vs-model", "DeleteShape/foreign-block-deleted/" + b.type, what + ": block " + std::to_string(g0.index.at(b.obj)) + " (" + b.type + "), which the shape does not own, is gone");
			return false;
		}
	std::string ssite, serr = serialisedSlotsKept(g0, g1, ssite);
	if (!serr.empty()) { R_viol("edit-vs-model", "DeleteShape/" + ssite, what + ": " + serr); return false; }
	R_stat("delete_shape_checked");
	return true;
}

void finalChecks(NifFile& nif, const std::string& hist, bool defaultSaveToo) {
	std::string vclass = verClass(nif.GetHeader().GetVersion());
	R_phase("final:snapshot");
	// saving finalizes the model first (Oblivion: a shape with tangents gets its "Tangent space" NiBinaryExtraData block back when an edit
	// deleted it): the graph that is written, and that the reloaded one is compared with, is the finalized one
	nif.FinalizeData();
	GraphSnap g = snapshotGraph(nif);
	R_phase("final:save:raw");
	SaveTrace tr;
	std::string out = saveTraced(nif, true, tr);
	std::string site;
	std::string err = c07Check(out, tr, nif.HasUnknown(), site);
	if (!err.empty()) { R_viol("saved-header", vclass + "/" + site, hist + ": " + err); return; }
	indep::Header h = indep::parse(out);
	if (h.ok && h.hasTypes) {
		std::vector<int> used(h.types.size(), 0);
		for (auto ti : h.typeIndex) if (ti < used.size()) used[ti]++;
		for (size_t t = 0; t < used.size(); t++)
			if (!used[t]) { R_viol("saved-header", vclass + "/type-unused", hist + ": saved type table still lists '" + h.types[t] + "' which no block uses"); return; }
		std::set<std::string> names(h.types.begin(), h.types.end());
		if (names.size() != h.types.size()) { R_viol("saved-header", vclass + "/type-duplicate", hist + ": saved type table has duplicate names"); return; }
	}
	R_phase("final:reload");
	if (g_cfg.verbose) { std::ofstream f("/tmp/nifmon_c06.nif", std::ios::binary); f << out; }
	NifFile re;
	if (loadNif(re, out) != 0) { R_viol("reload", vclass + "/reload-fails", hist + ": the edited model does not reload"); return; }
	GraphSnap g2 = snapshotGraph(re);
	if (g2.blocks.size() != g.blocks.size()) { R_viol("reload", vclass + "/block-count", hist + fmt(": %zu blocks saved, %zu reloaded", g.blocks.size(), g2.blocks.size())); return; }
	for (size_t i = 0; i < g.blocks.size(); i++) {
		if (g.blocks[i].type != g2.blocks[i].type) { R_viol("reload", vclass + "/type", hist + fmt(": block %zu is %s, reloaded as %s", i, g.blocks[i].type.c_str(), g2.blocks[i].type.c_str())); return; }
		if (g.blocks[i].slotIndex != g2.blocks[i].slotIndex) { R_viol("reload", vclass + "/references/" + g.blocks[i].type, hist + fmt(": references of block %zu (%s) differ after reload", i, g.blocks[i].type.c_str())); return; }
	}
	if (defaultSaveToo) {
		R_phase("final:save:default");
		std::string d = saveNif(nif, false);
		NifFile re2;
		R_phase("final:reload:default");
		if (loadNif(re2, d) != 0) R_viol("reload", vclass + "/default-save-reload-fails", hist + ": default-saved edited model does not reload");
	}
	R_stat("sequences_saved_and_reloaded");
}

// ---- small generated graphs
std::string smallGraph(int variant, const VerInfo& v) {
	NifFile n;
	n.Create(toNiVersion(v));
	auto& hdr = n.GetHeader();
	if (variant == 0) { hdr.DeleteBlock(0u); return saveNif(n, true); }   // empty model
	if (variant == 1) return saveNif(n, true);                            // one block
	auto root = n.GetRootNode();
	auto child = n.AddNode("child", MatTransform());
	auto sed = std::make_unique<NiStringExtraData>();
	sed->name.get() = "x";
	n.AssignExtraData(root, std::move(sed));
	auto si = std::make_unique<NiSkinInstance>();
	si->targetRef.index = 0;
	si->boneRefs.AddBlockRef(n.GetBlockID(child));
	uint32_t siId = hdr.AddBlock(std::move(si));
	(void)siId;
	if (variant >= 3) {
		auto loose = std::make_unique<NiStringExtraData>();
		loose->name.get() = "loose";
		hdr.AddBlock(std::move(loose));
		auto n2 = n.AddNode("grandchild", MatTransform(), child);
		(void)n2;
	}
	if (variant >= 4) {
		auto tc = std::make_unique<NiTransformController>();
		tc->targetRef.index = 0;
		uint32_t id = hdr.AddBlock(std::move(tc));
		n.GetRootNode()->controllerRef.index = id;
	}
	return saveNif(n, true);
}

std::vector<OpSpec> alphabet(NifFile& nif) {
	std::vector<OpSpec> ops;
	auto& hdr = nif.GetHeader();
	uint32_t n = hdr.GetNumBlocks();
	for (uint32_t i = 0; i < n; i++) ops.push_back({DEL, i});
	for (uint32_t i = 0; i < n; i++) ops.push_back({DELREF, i, i % 2});
	for (uint32_t k = 0; k < 3; k++) ops.push_back({ADD, k, 7 + k});
	for (uint32_t i = 0; i < n; i += (n > 3 ? 2 : 1)) ops.push_back({REPLACE, i, i % 3});
	for (uint32_t k = 0; k < 3; k++) ops.push_back({ORDER, k, 1});
	std::set<std::string> types;
	for (uint32_t i = 0; i < n; i++) types.insert(hdr.GetBlockTypeStringById(i));
	for (auto& t : types) { ops.push_back({DELTYPE, 0, 0, t, false}); ops.push_back({DELTYPE, 0, 0, t, true}); }
	ops.push_back({DELUNREF_HDR, 0, 0, "", false});
	ops.push_back({DELUNREF_HDR, 0, 0, "", true});
	ops.push_back({DELUNREF_NIF, 0, 0, "", false});
	ops.push_back({DELUNREF_NIF, 0, 0, "", true});
	return ops;
}

void exhaustive(NifFile& nif, int depth, const std::string& hist, long& sequences) {
	if (depth == 0) {
		sequences++;
		R_cover(hist);
		if (sequences % 7 == 0) { NifFile cp(nif); finalChecks(cp, hist, false); }
		return;
	}
	auto ops = alphabet(nif);
	for (auto& op : ops) {
		NifFile cp(nif);
		if (!step(cp, op, hist)) continue;
		exhaustive(cp, depth - 1, hist + " -> " + opStr(op), sequences);
	}
}

struct Plan { int depth; int randomSeqs; int seqLen; };
Plan plan() { return g_cfg.tier ? Plan{4, 6000, 60} : Plan{3, 600, 25}; }
const int NSMALL = 5;
static const char* SMALLV[] = {"OB", "SK", "FO4"};

// witness of the open finding: deleting a shape's geometry data block leaves the shape's cached data pointer dangling
void witnessDanglingGeometry() {
	R_caseDesc("witness: SK model, DeleteBlock(NiTriShapeData of shape0) then default save");
	R_eval();
	ApiOpts ao;
	ao.version = "SK";
	ao.shapes = 1;
	ao.skinned = 0;
	ao.nv = 5;
	ao.nt = 3;
	ao.extras = false;
	ApiModel m = buildApiModel(1234, 2, &ao);
	if (!m.ok) return;
	NifFile n;
	if (loadNif(n, m.bytes) != 0) return;
	auto shape = n.GetShapes().at(0);
	R_phase("witness:DeleteBlock(data)");
	n.GetHeader().DeleteBlock(*shape->DataRef());
	R_phase("witness:save:default");
	saveNif(n, false);
}

void run(size_t idx) {
	Plan p = plan();
	size_t nExh = (size_t)NSMALL * 3;
	if (idx == nExh + (size_t)p.randomSeqs) { witnessDanglingGeometry(); return; }
	if (idx < nExh) {
		int variant = (int)(idx % NSMALL);
		const VerInfo& v = *findVer(SMALLV[idx / NSMALL]);
		std::string bytes = smallGraph(variant, v);
		NifFile n;
		if (loadNif(n, bytes) != 0) { R_viol("setup", "small-graph", "generated small graph does not load"); return; }
		std::string hist = fmt("small graph %d (%s, %u blocks)", variant, v.n, n.GetHeader().GetNumBlocks());
		R_caseDesc(hist + fmt(" exhaustive depth %d", p.depth));
		long seqs = 0;
		int depth = variant >= 4 ? p.depth - 1 : p.depth;   // keep the largest graph affordable
		exhaustive(n, depth, hist, seqs);
		R_stat("exhaustive_sequences", seqs);
		R_cover(fmt("exh/%d/%s", variant, v.n));
		R_sample(fmt("{\"kind\":\"exhaustive\",\"graph\":%d,\"version\":\"%s\",\"depth\":%d,\"sequences\":%ld}", variant, v.n, depth, seqs));
		return;
	}
	idx -= nExh;
	// random sequences on real / synthesised / API-built models
	uint64_t seed = mix(g_cfg.seed, 0xC06000 + idx);
	Rng rng(seed);
	std::string bytes, src;
	int kind = (int)(idx % 3);
	if (kind == 0) { auto& s = realSamples()[idx / 3 % realSamples().size()]; bytes = s.bytes; src = "real:" + s.name; }
	else if (kind == 1) {
		const TypeDB& db = typeDB();
		const std::string& focus = db.names[rng.below((uint32_t)db.names.size())];
		const VerInfo& v = VERS[rng.below((uint32_t)NVERS)];
		SynthOpts so;
		so.gen.maxCount = 3;
		SynthFile S = synthFile(v, focus, seed, so);
		if (!S.ok) return;
		bytes = S.bytes;
		src = fmt("syn:%s:%s:seed=%llu", v.n, focus.c_str(), (unsigned long long)seed);
	}
	else {
		ApiModel m = buildApiModel(seed, (int)idx);
		if (!m.ok) return;
		bytes = m.bytes;
		src = "api:" + m.desc;
		// the model as built, before any save has sorted it: children are stored in front of their shape
		NifFile live(*m.nif);
		R_caseDesc(src + " (as built)");
		Rng dr(mix(seed, 0xD5));
		if (deleteShapeCheck(live, src + " (as built, not saved yet)", dr)) finalChecks(live, src + " (as built) -> DeleteShape", false);
	}
	NifFile n;
	if (loadNif(n, bytes) != 0) { R_stat("input_not_accepted"); return; }
	if (n.HasUnknown()) return;
	std::string hist = src;
	R_caseDesc(src);
	if (src.rfind("real:", 0) == 0 || src.rfind("api:", 0) == 0) {
		// DeleteShape on the model as loaded (not after the random edits below: their replacement blocks point anywhere, a shape
		// whose data or shader reference designates the shape itself is no model DeleteShape is meant for)
		NifFile cp(n);
		Rng dr(mix(seed, 0xD6));
		deleteShapeCheck(cp, src + " (as loaded)", dr);
		R_caseDesc(src);
	}
	{
		Model m0 = buildModel(n);
		std::string site, err = compareState(n, m0, site);
		if (!err.empty() && site.rfind("type-table", 0) != 0) { R_stat("initial_state_rejected"); return; }
	}
	bool ok = true;
	g_serialisedSlotsToo = true;
	for (int k = 0; k < p.seqLen && ok; k++) {
		auto& hdr = n.GetHeader();
		uint32_t nb = hdr.GetNumBlocks();
		OpSpec op;
		uint32_t c = rng.below(20);
		if (c < 3) op = {DEL, nb ? rng.below(nb) : 0};
		else if (c < 5) op = {DELREF, nb ? rng.below(nb) : 0, rng.below(4)};
		else if (c < 9) op = {ADD, rng.below(4), rng.below(1000)};
		else if (c < 12) op = {REPLACE, nb ? rng.below(nb) : 0, rng.below(4)};
		else if (c < 15) op = {ORDER, rng.below(4), rng.below(1000)};
		else if (c < 17) op = {DELTYPE, 0, 0, nb ? hdr.GetBlockTypeStringById(rng.below(nb)) : std::string("NiNode"), rng.coin()};
		else if (c < 18) op = {DELUNREF_HDR, nb ? rng.below(nb) : 0, 0, "", rng.coin()};
		else op = {DELUNREF_NIF, 0, 0, "", rng.coin()};
		// deleting the geometry data behind a shape's back leaves the shape's cached pointer dangling (known finding, see DESIGN);
		// such edits are exercised separately in the witness case
		if (op.k == DEL && op.a < nb && hdr.GetBlock<NiGeometryData>(op.a)) continue;
		if (op.k == REPLACE && op.a < nb && hdr.GetBlock<NiGeometryData>(op.a)) continue;
		if (op.k == DELTYPE && op.name.find("Data") != std::string::npos && (op.name.find("Shape") != std::string::npos || op.name.find("Strips") != std::string::npos || op.name.find("Lines") != std::string::npos || op.name.find("Elements") != std::string::npos)) continue;
		ok = step(n, op, hist);
		hist += " -> " + opStr(op);
		if (hist.size() > 900) hist = src + " ... " + hist.substr(hist.size() - 600);
		R_caseDesc(hist);
	}
	if (ok) { finalChecks(n, hist, true); R_cover(fmt("rnd/%zu/%016llx", idx, (unsigned long long)hashStr(hist))); }
	if (idx < 3) R_sample(fmt("{\"kind\":\"random\",\"history\":\"%s\"}", jesc(hist.substr(0, 400)).c_str()));
}

MonReg reg({"C06", "exploration",
			"operations NifFile::DeleteShape (on API models as built, children stored in front of the shape, and on real / API models as loaded: the shape goes, nothing outside its owned sub-graph goes, surviving references keep their targets) and AddBlock / DeleteBlock(index) / DeleteBlock(reference object stored in a block) / ReplaceBlock / SetBlockOrder / DeleteBlockByType(orphanedOnly on|off) / NiHeader::DeleteUnreferencedBlocks<NiObject|NiNode> / "
			"NifFile::DeleteUnreferencedBlocks<NiObject|NiExtraData>. Exhaustive: every sequence up to length 3 (quick) / 4 (thorough) over the state-dependent op alphabet on five "
			"generated graphs (empty, one block, 4, 6 and 7 blocks with refs, back-pointers, a loose block and a controller) in OB, SK and FO4; random: sequences of 25 (40) ops on real, "
			"synthesised and API-built models. After every single op the library state is compared with an executable reference model of an indexed object graph built from the verified "
			"pre-state: block identities per index, every enumerated slot designates the modelled object (empty exactly when its target was deleted), header count, per-block type names, "
			"type indices consistent/dense/unique, size table length. At the end: raw save, independent header check (no unused or duplicate type names), reload, reference lists equal.",
			[] { return (size_t)NSMALL * 3 + (size_t)plan().randomSeqs + 1; }, run, 3, 300.0, false, false, nullptr});
} // namespace
