// C17 — segment / partition labels round-trip and always partition the triangles.
#include "skinmodel.hpp"
#include "sources.hpp"

namespace {
using namespace vf;

struct Peek : BSSubIndexTriShape { using BSSubIndexTriShape::segmentation; };
const BSSubIndexTriShape::BSSITSSegmentation& segTable(BSSubIndexTriShape* s) { return s->*(&Peek::segmentation); }

using Key = std::tuple<uint16_t, uint16_t, uint16_t>;
Key keyOf(const Triangle& t) { return {t.p1, t.p2, t.p3}; }

struct Spec {
	NifSegmentationInfo inf;
	std::vector<int> declared;            // all declared ids in traversal order
	std::map<int, int> renum;             // declared id -> expected new id
	std::map<int, bool> isSub;
};

Spec makeSpec(Rng& rng, int nseg, int maxSubs, bool permuteIds) {
	Spec sp;
	int total = 0;
	std::vector<int> subsPer;
	for (int g = 0; g < nseg; g++) { int k = maxSubs ? (int)rng.below((uint32_t)maxSubs + 1) : 0; subsPer.push_back(k); total += 1 + k; }
	std::vector<int> ids(total);
	for (int i = 0; i < total; i++) ids[i] = i;
	if (permuteIds)
		for (int i = total; i > 1; i--) std::swap(ids[(size_t)i - 1], ids[rng.below((uint32_t)i)]);
	int next = 0, newId = 0;
	for (int g = 0; g < nseg; g++) {
		NifSegmentInfo si;
		si.partID = ids[(size_t)next++];
		sp.declared.push_back(si.partID);
		sp.renum[si.partID] = newId++;
		sp.isSub[si.partID] = false;
		for (int u = 0; u < subsPer[(size_t)g]; u++) {
			NifSubSegmentInfo ss;
			ss.partID = ids[(size_t)next++];
			ss.userSlotID = rng.coin() ? 30 + rng.below(40) : rng.below(30);
			ss.material = rng.coin() ? 0xFFFFFFFFu : rng.below(1000);
			int ne = (int)rng.below(3);
			for (int e = 0; e < ne; e++) ss.extraData.push_back(rng.range(-1, 1));
			sp.declared.push_back(ss.partID);
			sp.renum[ss.partID] = newId++;
			sp.isSub[ss.partID] = true;
			si.subs.push_back(ss);
		}
		sp.inf.segs.push_back(si);
	}
	sp.inf.ssfFile = rng.coin() ? "Meshes\\x.ssf" : "";
	return sp;
}

// checks table + read-back against what was set; `labelOf` maps a triangle to the label given in the Set call
bool checkSegmentation(NiShape* shape, const Spec& sp, const std::map<Key, int>& labelOf, const std::multiset<Key>& expectTris, const std::string& what, const char* stage) {
	R_eval();
	auto bs = dynamic_cast<BSSubIndexTriShape*>(shape);
	auto V = [&](const std::string& cls, const std::string& d) { R_viol("segmentation", std::string(stage) + "/" + cls, what + " [" + stage + "]: " + d); return false; };
	if (!bs) return V("shape-type", "shape is no BSSubIndexTriShape");
	std::vector<Triangle> tris;
	shape->GetTriangles(tris);
	std::multiset<Key> now;
	for (auto& t : tris) now.insert(keyOf(t));
	if (now != expectTris) return V("triangles-not-a-permutation", fmt("stored triangles (%zu) are not a permutation of the expected ones (%zu)", now.size(), expectTris.size()));
	NifSegmentationInfo inf2;
	std::vector<int> tp2;
	{
		// callers re-use their output objects: what they held before the call is no part of the answer
		NifSegmentInfo junk; junk.partID = 77; junk.subs.resize(2);
		inf2.segs.assign(3, junk);
		inf2.ssfFile = "left over from an earlier call";
		tp2.assign(tris.size() + 3, 5);
	}
	if (!NifFile::GetShapeSegments(shape, inf2, tp2)) return V("get-failed", "GetShapeSegments returned false");
	if (tp2.size() != tris.size()) return V("label-count", fmt("%zu labels for %zu triangles", tp2.size(), tris.size()));
	// structure and renumbering
	if (inf2.segs.size() != sp.inf.segs.size()) return V("segment-count", fmt("%zu segments read back, %zu set", inf2.segs.size(), sp.inf.segs.size()));
	int expectId = 0;
	for (size_t g = 0; g < inf2.segs.size(); g++) {
		if (inf2.segs[g].partID != expectId++) return V("renumbering", fmt("segment %zu has id %d, ids must increase in segment order", g, inf2.segs[g].partID));
		if (inf2.segs[g].subs.size() != sp.inf.segs[g].subs.size()) return V("subsegment-count", fmt("segment %zu has %zu sub-segments, %zu were set", g, inf2.segs[g].subs.size(), sp.inf.segs[g].subs.size()));
		for (size_t u = 0; u < inf2.segs[g].subs.size(); u++) {
			auto& a = inf2.segs[g].subs[u];
			auto& b = sp.inf.segs[g].subs[u];
			if (a.partID != expectId++) return V("renumbering", fmt("sub-segment %zu/%zu has id %d", g, u, a.partID));
			uint32_t wantSlot = b.userSlotID < 30 ? 0 : b.userSlotID;
			if (a.userSlotID != wantSlot) return V("user-slot", fmt("sub-segment %zu/%zu user slot %u, expected %u", g, u, a.userSlotID, wantSlot));
			if (a.material != b.material) return V("material", fmt("sub-segment %zu/%zu material %u, expected %u", g, u, a.material, b.material));
			if (a.extraData != b.extraData) return V("extra-data", fmt("sub-segment %zu/%zu extra data differs", g, u));
		}
	}
	// the ssf file name is part of the sub-segment data, which the format only stores when sub-segments exist
	bool anySub = false;
	for (auto& g : sp.inf.segs) anySub |= !g.subs.empty();
	if (anySub && inf2.ssfFile != sp.inf.ssfFile) return V("ssf-file", "ssf file name '" + inf2.ssfFile + "' != '" + sp.inf.ssfFile + "'");
	// labels: preserved up to the renumbering; every triangle labelled; blocks contiguous and ordered
	int prev = -1;
	std::set<int> closed;
	for (size_t i = 0; i < tris.size(); i++) {
		int l = tp2[i];
		if (l < 0 || l >= expectId) return V("triangle-outside-all-ranges", fmt("triangle %zu reads back label %d (valid 0..%d)", i, l, expectId - 1));
		if (l != prev) { if (closed.count(l)) return V("range-not-contiguous", fmt("label %d appears in two separate runs", l)); if (prev >= 0) closed.insert(prev); if (l < prev) return V("ranges-not-ordered", fmt("label %d follows %d", l, prev)); prev = l; }
		auto it = labelOf.find(keyOf(tris[i]));
		if (it != labelOf.end() && it->second >= 0) {
			int want = sp.renum.at(it->second);
			if (l != want) return V("label-not-preserved", fmt("triangle (%u,%u,%u) was given label %d (-> %d) but reads back %d", tris[i].p1, tris[i].p2, tris[i].p3, it->second, want, l));
		}
	}
	// the stored table itself
	auto& st = segTable(bs);
	uint32_t nt = (uint32_t)tris.size();
	if (st.numPrimitives != nt) return V("table-numPrimitives", fmt("table says %u primitives, shape has %u triangles", st.numPrimitives, nt));
	uint32_t pos = 0, sum = 0;
	for (size_t g = 0; g < st.segments.size(); g++) {
		auto& sg = st.segments[g];
		if (sg.startIndex != pos * 3) return V("table-segment-start", fmt("segment %zu starts at index %u, expected %u (contiguous)", g, sg.startIndex, pos * 3));
		if (pos + sg.numPrimitives > nt) return V("table-segment-range", fmt("segment %zu covers triangles %u..%u of %u", g, pos, pos + sg.numPrimitives, nt));
		uint32_t sp0 = pos, subSum = 0;
		bool firstSub = true;
		for (auto& sb : sg.subSegments) {
			uint32_t s0 = sb.startIndex / 3;
			if (sb.startIndex % 3 || s0 < sp0 || s0 + sb.numPrimitives > pos + sg.numPrimitives) return V("table-subsegment-nesting", fmt("a sub-segment of segment %zu covers %u..%u outside %u..%u", g, s0, s0 + sb.numPrimitives, pos, pos + sg.numPrimitives));
			if (!firstSub && s0 != sp0) return V("table-subsegment-contiguity", fmt("sub-segments of segment %zu are not contiguous", g));
			firstSub = false;
			sp0 = s0 + sb.numPrimitives;
			subSum += sb.numPrimitives;
		}
		if (subSum > sg.numPrimitives) return V("table-subsegment-sum", fmt("sub-segments of segment %zu hold %u triangles, the segment %u", g, subSum, sg.numPrimitives));
		pos += sg.numPrimitives;
		sum += sg.numPrimitives;
	}
	if (sum != nt) return V("table-sum", fmt("segment sizes sum to %u, shape has %u triangles", sum, nt));
	R_stat("triangles_label_checked", (long)nt);
	return true;
}

NiShape* buildShape(NifFile& nif, const char* ver, const Mesh& mesh) {
	nif.Create(toNiVersion(*findVer(ver)));
	return nif.CreateShapeFromData("seg", &mesh.verts, &mesh.tris, &mesh.uvs, &mesh.normals);
}

void segCase(const std::string& what, const char* ver, const Mesh& mesh, const Spec& sp, const std::vector<int>& labels, Rng& rng, bool deleteVerts) {
	R_caseDesc(what);
	NifFile nif;
	NiShape* s = buildShape(nif, ver, mesh);
	if (!s) return;
	std::map<Key, int> labelOf;
	std::multiset<Key> tset;
	for (size_t i = 0; i < mesh.tris.size(); i++) { labelOf[keyOf(mesh.tris[i])] = labels[i]; tset.insert(keyOf(mesh.tris[i])); }
	R_phase("SetShapeSegments");
	NifFile::SetShapeSegments(s, sp.inf, labels);
	if (!checkSegmentation(s, sp, labelOf, tset, what, "after-set")) return;
	// set what was read: must be stable
	{
		NifSegmentationInfo inf2;
		std::vector<int> tp2;
		NifFile::GetShapeSegments(s, inf2, tp2);
		NifFile::SetShapeSegments(s, inf2, tp2);
		NifSegmentationInfo inf3;
		std::vector<int> tp3;
		NifFile::GetShapeSegments(s, inf3, tp3);
		R_eval();
		if (tp3 != tp2) { R_viol("segmentation", "set-get-set/labels-change", what + ": setting the read-back labelling changes it"); return; }
	}
	R_phase("save+reload");
	{
		NifFile cp(nif);
		std::string bytes = saveNif(cp, false);
		NifFile re;
		if (loadNif(re, bytes) != 0 || re.GetShapes().size() != 1) { R_viol("segmentation", "reload/load", what + ": segmented model does not reload"); return; }
		if (!checkSegmentation(re.GetShapes()[0], sp, labelOf, tset, what, "after-reload")) return;
	}
	if (deleteVerts && mesh.verts.size() > 4) {
		std::vector<uint16_t> del;
		for (uint16_t i = 0; i < mesh.verts.size(); i++)
			if (rng.coin(6)) del.push_back(i);
		if (!del.empty() && del.size() < mesh.verts.size()) {
			R_phase("DeleteVertsForShape");
			nif.DeleteVertsForShape(s, del);
			// expected survivors with re-indexed corners keep their label
			std::vector<int> collapse(mesh.verts.size());
			int d = 0;
			size_t di = 0;
			for (size_t v = 0; v < mesh.verts.size(); v++) { if (di < del.size() && del[di] == v) { collapse[v] = -1; di++; } else collapse[v] = d++; }
			std::map<Key, int> label2;
			std::multiset<Key> tset2;
			for (size_t i = 0; i < mesh.tris.size(); i++) {
				auto& t = mesh.tris[i];
				if (collapse[t.p1] < 0 || collapse[t.p2] < 0 || collapse[t.p3] < 0) continue;
				Key k{(uint16_t)collapse[t.p1], (uint16_t)collapse[t.p2], (uint16_t)collapse[t.p3]};
				label2[k] = labels[i];
				tset2.insert(k);
			}
			if (!checkSegmentation(s, sp, label2, tset2, what + fmt(" [%zu vertices deleted]", del.size()), "after-vertex-deletion")) return;
			// a second deletion on the same in-memory shape
			size_t nv2 = mesh.verts.size() - del.size();
			if (nv2 > 3) {
				std::vector<uint16_t> del2;
				for (uint16_t i = 0; i < nv2; i++)
					if (rng.coin(5)) del2.push_back(i);
				if (!del2.empty() && del2.size() < nv2) {
					nif.DeleteVertsForShape(s, del2);
					std::vector<int> c2(nv2);
					int d2 = 0;
					size_t dj = 0;
					for (size_t v = 0; v < nv2; v++) { if (dj < del2.size() && del2[dj] == v) { c2[v] = -1; dj++; } else c2[v] = d2++; }
					std::map<Key, int> label3;
					std::multiset<Key> tset3;
					for (auto& kv : label2) {
						auto [a, b, c] = kv.first;
						if (c2[a] < 0 || c2[b] < 0 || c2[c] < 0) continue;
						Key k{(uint16_t)c2[a], (uint16_t)c2[b], (uint16_t)c2[c]};
						label3[k] = kv.second;
					}
					for (auto& k0 : tset2) {
						auto [a, b, c] = k0;
						if (c2[a] < 0 || c2[b] < 0 || c2[c] < 0) continue;
						tset3.insert(Key{(uint16_t)c2[a], (uint16_t)c2[b], (uint16_t)c2[c]});
					}
					if (!checkSegmentation(s, sp, label3, tset3, what + fmt(" [second deletion of %zu vertices]", del2.size()), "after-second-vertex-deletion")) return;
					label2 = label3;
					tset2 = tset3;
				}
			}
			NifFile cp(nif);
			std::string bytes = saveNif(cp, false);
			NifFile re;
			if (loadNif(re, bytes) != 0 || re.GetShapes().size() != 1) { R_viol("segmentation", "reload/load", what + ": model does not reload after vertex deletion"); return; }
			if (!checkSegmentation(re.GetShapes()[0], sp, label2, tset2, what, "after-vertex-deletion+reload")) return;
		}
	}
	{
		// taking the segmentation away again: no segments, every triangle unassigned; read back into objects that still hold the
		// previous answer, in memory and after save + reload
		R_phase("remove-segmentation");
		NifSegmentationInfo prevInf;
		std::vector<int> prevLabels;
		NifFile::GetShapeSegments(s, prevInf, prevLabels);
		std::vector<Triangle> trisNow;
		s->GetTriangles(trisNow);
		NifSegmentationInfo none;
		none.ssfFile = prevInf.ssfFile;
		NifFile::SetShapeSegments(s, none, std::vector<int>(trisNow.size(), -1));
		auto judgeRemoved = [&](NiShape* sh, const char* stage) {
			R_eval();
			NifSegmentationInfo got = prevInf;
			std::vector<int> lab = prevLabels;
			for (auto& l : lab) if (l < 0) l = 0;
			if (!NifFile::GetShapeSegments(sh, got, lab)) { R_viol("segmentation", std::string(stage) + "/get-failed", what + ": GetShapeSegments fails after the segmentation was removed"); return false; }
			std::vector<Triangle> t2;
			sh->GetTriangles(t2);
			if (!got.segs.empty()) { R_viol("segmentation", std::string(stage) + "/segments-reported", what + fmt(": %zu segments read back after the segmentation was removed", got.segs.size())); return false; }
			if (lab.size() != t2.size()) { R_viol("segmentation", std::string(stage) + "/label-count", what + fmt(": %zu labels for %zu triangles after removal", lab.size(), t2.size())); return false; }
			for (size_t i = 0; i < lab.size(); i++)
				if (lab[i] != -1) { R_viol("segmentation", std::string(stage) + "/stale-label", what + fmt(": triangle %zu reads back label %d after the segmentation was removed (output objects held the previous answer)", i, lab[i])); return false; }
			return true;
		};
		if (!judgeRemoved(s, "after-removal")) return;
		NifFile cp(nif);
		NifFile re;
		if (loadNif(re, saveNif(cp, false)) != 0 || re.GetShapes().size() != 1) { R_viol("segmentation", "after-removal/reload", what + ": model does not reload after the segmentation was removed"); return; }
		if (!judgeRemoved(re.GetShapes()[0], "after-removal+reload")) return;
		R_stat("segmentations_removed_and_read_back");
	}
	R_cover(what);
}

// ---- partition labels (LE/SSE/FO3/OB)
void partitionCase(size_t idx) {
	static const char* VN[] = {"OB", "FO3", "SK", "SSE"};
	uint64_t seed = mix(g_cfg.seed, 0xC17B00 + idx);
	Rng rng(seed);
	ApiOpts ao;
	ao.version = VN[idx % 4];
	ao.shapes = 1;
	ao.skinned = 1;
	ao.extras = false;
	ao.usedObject = idx % 4 == 2;
	ao.bones = 1 + (int)rng.below(8);   // below every bone limit: rebuilding never has to split a partition
	ao.nv = 4 + (int)rng.below(40);
	ao.nt = 1 + (int)rng.below(60);
	// one case in five: more bones than a partition may use (18 before SSE, 80 there), so the rebuild has to split partitions; the labels
	// are then renumbered, what must survive is the body part every triangle was given
	bool split = idx % 5 == 4;
	if (split) { ao.bones = (idx % 4 == 3 ? 90 : 24) + (int)rng.below(30); ao.nv = 60 + (int)rng.below(120); ao.nt = 40 + (int)rng.below(80); ao.maxInfluences = 2; }
	ApiModel m = buildApiModel(seed, (int)idx, &ao);
	if (!m.ok) return;
	NifFile& nif = *m.nif;
	NiShape* s = nif.GetShapes().at(0);
	std::string what = "partitions api:" + m.desc;
	R_caseDesc(what);
	std::vector<Triangle> tris;
	s->GetTriangles(tris);
	int np = 1 + (int)rng.below(4);
	NiVector<BSDismemberSkinInstance::PartitionInfo> ninf;
	for (int p = 0; p < np; p++) { BSDismemberSkinInstance::PartitionInfo pi; pi.flags = PF_EDITOR_VISIBLE; pi.partID = (uint16_t)(30 + p); ninf.push_back(pi); }
	std::vector<int> tp(tris.size());
	bool withUnassigned = idx % 3 == 0;
	for (auto& x : tp) x = (withUnassigned && rng.coin(4)) ? -1 : (int)rng.below((uint32_t)np);
	std::map<Key, int> labelOf;
	for (size_t i = 0; i < tris.size(); i++) { Triangle t = normTri(tris[i]); labelOf[keyOf(t)] = tp[i]; }
	R_phase("SetShapePartitions");
	nif.SetShapePartitions(s, ninf, tp);
	s = nif.GetShapes().at(0);
	nif.UpdateSkinPartitions(s);
	auto verify = [&](NifFile& f, NiShape* sh, const char* stage) {
		R_eval();
		NiVector<BSDismemberSkinInstance::PartitionInfo> inf2;
		std::vector<int> tp2(7, 3);   // output objects that still hold an earlier answer
		{ BSDismemberSkinInstance::PartitionInfo j; j.partID = 999; inf2.push_back(j); inf2.push_back(j); }
		if (!f.GetShapePartitions(sh, inf2, tp2)) { R_viol("partition-labels", std::string(stage) + "/get-failed", what + ": GetShapePartitions failed"); return false; }
		std::vector<Triangle> t2;
		sh->GetTriangles(t2);
		if (tp2.size() != t2.size()) { R_viol("partition-labels", std::string(stage) + "/label-count", what + fmt(": %zu labels for %zu triangles", tp2.size(), t2.size())); return false; }
		std::multiset<Key> a, b;
		for (auto t : tris) a.insert(keyOf(normTri(t)));
		for (auto t : t2) b.insert(keyOf(normTri(t)));
		if (a != b) { R_viol("partition-labels", std::string(stage) + "/triangles-not-a-permutation", what + ": triangles changed"); return false; }
		uint32_t expectParts = (uint32_t)np + (withUnassigned && std::count(tp.begin(), tp.end(), -1) ? 1 : 0);
		bool dismemberV = f.GetHeader().GetVersion().File() == NiFileVersion::V20_2_0_7;
		bool wasSplit = split && inf2.size() > expectParts;
		if (wasSplit) {
			// partitions were split: indices moved, every assigned triangle still belongs to the body part it was given
			for (size_t i = 0; i < t2.size(); i++) {
				int want = labelOf.at(keyOf(normTri(t2[i])));
				if (tp2[i] < 0 || tp2[i] >= (int)inf2.size()) { R_viol("partition-labels", std::string(stage) + "/triangle-unassigned", what + fmt(": triangle %zu reads back partition %d of %u", i, tp2[i], inf2.size())); return false; }
				if (dismemberV && want >= 0 && inf2[(uint32_t)tp2[i]].partID != ninf[(uint32_t)want].partID) {
					R_viol("partition-labels", std::string(stage) + "/body-part-not-preserved-across-split", what + fmt(": triangle %zu was given body part %u (partition %d of %d), after the rebuild split partitions (%u now) it sits in partition %d with body part %u", i, ninf[(uint32_t)want].partID, want, np, inf2.size(), tp2[i], inf2[(uint32_t)tp2[i]].partID));
					return false;
				}
			}
			auto errs = checkPartitions(f, sh, true);
			for (auto& e : errs) { R_viol("partition-labels", std::string(stage) + "/" + invClass(e), what + ": " + e); return false; }
			R_stat("models_whose_partitions_were_split");
			R_stat("triangles_label_checked", (long)t2.size());
			return true;
		}
		for (size_t i = 0; i < t2.size(); i++) {
			int want = labelOf.at(keyOf(normTri(t2[i])));
			if (tp2[i] < 0 || tp2[i] >= (int)inf2.size()) { R_viol("partition-labels", std::string(stage) + "/triangle-unassigned", what + fmt(": triangle %zu reads back partition %d of %u", i, tp2[i], inf2.size())); return false; }
			if (want >= 0 && tp2[i] != want) { R_viol("partition-labels", std::string(stage) + "/label-not-preserved", what + fmt(": triangle %zu was assigned to partition %d, reads back %d", i, want, tp2[i])); return false; }
			if (want < 0 && tp2[i] != np) { R_viol("partition-labels", std::string(stage) + "/unassigned-not-in-extra-partition", what + fmt(": unassigned triangle %zu reads back %d, expected the added partition %d", i, tp2[i], np)); return false; }
		}
		if (inf2.size() < expectParts) { R_viol("partition-labels", std::string(stage) + "/partition-count", what + fmt(": %u partition infos, expected at least %u", inf2.size(), expectParts)); return false; }
		bool dismember = f.GetHeader().GetVersion().File() == NiFileVersion::V20_2_0_7;   // body-part ids live in BSDismemberSkinInstance (FO3 and later)
		for (int p = 0; dismember && p < np && p < (int)inf2.size(); p++)
			if (inf2[(uint32_t)p].partID != ninf[(uint32_t)p].partID) { R_viol("partition-labels", std::string(stage) + "/part-id", what + fmt(": partition %d has body part %u, set %u", p, inf2[(uint32_t)p].partID, ninf[(uint32_t)p].partID)); return false; }
		auto errs = checkPartitions(f, sh, true);
		for (auto& e : errs) { R_viol("partition-labels", std::string(stage) + "/" + invClass(e), what + ": " + e); return false; }
		R_stat("triangles_label_checked", (long)t2.size());
		return true;
	};
	if (!verify(nif, s, "after-set")) return;
	NifFile cp(nif);
	NifFile re;
	if (loadNif(re, saveNif(cp, false)) != 0 || re.GetShapes().size() != 1) { R_viol("partition-labels", "reload/load", what + ": does not reload"); return; }
	// empty partitions may be dropped by nobody: they are written and read back
	if (!verify(re, re.GetShapes()[0], "after-reload")) return;
	// deleting a partition while the per-triangle labels are cached (the Get above filled the cache): the labels follow the renumbering,
	// triangles of the deleted partition become unassigned
	if (!withUnassigned && !split) {
		NiVector<BSDismemberSkinInstance::PartitionInfo> i0, i1;
		std::vector<int> t0, t1;
		if (nif.GetShapePartitions(s, i0, t0) && i0.size() >= 2) {
			uint32_t d = rng.below(i0.size() - 1);   // never the last one: later partitions have to move down
			std::vector<uint32_t> del{d};
			R_phase("DeletePartitions");
			nif.DeletePartitions(s, del);
			R_eval();
			if (!nif.GetShapePartitions(s, i1, t1) || t1.size() != t0.size()) { R_viol("partition-labels", "after-delete-partition/label-count", what + fmt(": %zu labels before, %zu after DeletePartitions", t0.size(), t1.size())); return; }
			if (i1.size() + 1 != i0.size()) { R_viol("partition-labels", "after-delete-partition/partition-count", what + fmt(": %u partitions before, %u after deleting one", i0.size(), i1.size())); return; }
			for (size_t i = 0; i < t0.size(); i++) {
				int want = t0[i] < 0 ? -1 : (uint32_t)t0[i] == d ? -1 : t0[i] - ((uint32_t)t0[i] > d ? 1 : 0);
				if (t1[i] != want && !(want == -1 && t1[i] >= 0 && t1[i] < (int)i1.size())) {   // unassigned triangles may be put somewhere, never past the end
					R_viol("partition-labels", "after-delete-partition/label-not-renumbered", what + fmt(": partition %u of %u deleted; triangle %zu had label %d, now %d, expected %d", d, i0.size(), i, t0[i], t1[i], want));
					return;
				}
				if (t1[i] >= (int)i1.size()) { R_viol("partition-labels", "after-delete-partition/label-out-of-range", what + fmt(": triangle %zu carries label %d but only %u partitions are left", i, t1[i], i1.size())); return; }
			}
			R_stat("partition_deletions_with_cached_labels");
		}
	}
	R_cover(what);
}

// ---- partition labels on the real samples, set on an object that has not been queried before (a query converts strip partitions and
// fills caches) and without a rebuild afterwards: labels survive a copy, save+reload; after a vertex deletion every triangle is still held
bool labelsKept(NifFile& f, NiShape* sh, const std::vector<Triangle>& tris, const std::map<Key, int>& labelOf, const std::string& what, const char* stage) {
	R_eval();
	NiVector<BSDismemberSkinInstance::PartitionInfo> inf2;
	std::vector<int> tp2;
	if (!f.GetShapePartitions(sh, inf2, tp2)) { R_viol("partition-labels", std::string(stage) + "/get-failed", what + ": GetShapePartitions failed"); return false; }
	std::vector<Triangle> t2;
	sh->GetTriangles(t2);
	if (tp2.size() != t2.size() || t2.size() != tris.size()) { R_viol("partition-labels", std::string(stage) + "/label-count", what + fmt(": %zu labels, %zu triangles, %zu triangles before", tp2.size(), t2.size(), tris.size())); return false; }
	for (size_t i = 0; i < t2.size(); i++) {
		auto it = labelOf.find(keyOf(normTri(t2[i])));
		if (it == labelOf.end()) { R_viol("partition-labels", std::string(stage) + "/triangles-not-a-permutation", what + ": a triangle that was not in the shape is read back"); return false; }
		if (it->second >= 0 && tp2[i] != it->second) { R_viol("partition-labels", std::string(stage) + "/label-not-preserved", what + fmt(": triangle %zu was assigned to partition %d, reads back %d", i, it->second, tp2[i])); return false; }
	}
	R_stat("triangles_label_checked", (long)t2.size());
	return true;
}

void realPartitionCase(size_t k) {
	auto& smp = realSamples()[k / 2];
	int variant = (int)(k % 2);
	Rng rng(mix(g_cfg.seed, 0xC17D00 + k));
	NifFile nif;
	if (loadNif(nif, smp.bytes) != 0) return;
	auto& ver = nif.GetHeader().GetVersion();
	if (!(ver.IsOB() || ver.IsFO3() || ver.IsSK() || ver.IsSSE())) return;
	for (auto s : nif.GetShapes()) {
		auto si = nif.GetHeader().GetBlock<NiSkinInstance>(s->SkinInstanceRef());
		if (!si) continue;
		auto sp = nif.GetHeader().GetBlock(si->skinPartitionRef);
		if (!sp || !nif.GetHeader().GetBlock(si->dataRef) || sp->partitions.empty()) continue;
		std::vector<Triangle> tris;
		s->GetTriangles(tris);
		if (tris.empty()) continue;
		// duplicate faces cannot carry two labels: only shapes with distinct triangles
		std::map<Key, int> labelOf;
		int np = (int)sp->partitions.size();
		std::vector<int> tp(tris.size());
		bool distinct = true;
		for (size_t i = 0; i < tris.size(); i++) {
			tp[i] = (int)rng.below((uint32_t)np);
			if (!labelOf.insert({keyOf(normTri(tris[i])), tp[i]}).second) distinct = false;
		}
		if (!distinct) continue;
		NiVector<BSDismemberSkinInstance::PartitionInfo> ninf;
		for (int p = 0; p < np; p++) { BSDismemberSkinInstance::PartitionInfo pi; pi.flags = PF_EDITOR_VISIBLE; pi.partID = (uint16_t)(30 + p); ninf.push_back(pi); }
		bool strips = false;
		for (auto& p : sp->partitions) if (p.numStrips) strips = true;
		std::string name = s->name.get();
		std::string what = "partitions real:" + smp.name + " shape " + name + fmt(" [%d partitions%s, set without a query before or a rebuild after]", np, strips ? ", stored as strips" : "");
		R_caseDesc(what);
		R_phase("SetShapePartitions");
		nif.SetShapePartitions(s, ninf, tp);
		s = nif.FindBlockByName<NiShape>(name);
		if (!s) return;
		{
			NifFile cp(nif);
			if (auto cs = cp.FindBlockByName<NiShape>(name))
				if (!labelsKept(cp, cs, tris, labelOf, what, "real/after-set")) return;
		}
		if (variant == 0) {
			R_phase("save+reload");
			NifFile cp(nif), re;
			if (loadNif(re, saveNif(cp, true)) != 0) { R_viol("partition-labels", "real/reload/load", what + ": does not reload"); return; }
			auto rs = re.FindBlockByName<NiShape>(name);
			if (!rs) return;
			if (!labelsKept(re, rs, tris, labelOf, what, "real/after-reload")) return;
			auto errs = checkPartitions(re, rs, true, nullptr, false);
			for (auto& e : errs) {
				std::string cl = invClass(e);
				if (cl.find("triangle") == std::string::npos && cl.find("vertex-map") == std::string::npos && cl.find("dismember") == std::string::npos) continue;
				R_viol("partition-labels", "real/after-reload/" + cl, what + ": " + e);
				return;
			}
		}
		else {
			R_phase("DeleteVertsForShape");
			uint16_t nv = s->GetNumVertices();
			std::vector<uint16_t> del;
			for (uint16_t v = 0; v < nv; v++) if (rng.coin(40)) del.push_back(v);
			if (del.empty()) del.push_back((uint16_t)(nv / 2));
			nif.DeleteVertsForShape(s, del);
			s = nif.FindBlockByName<NiShape>(name);
			if (!s || s->GetNumTriangles() == 0) return;
			R_eval();
			// without a rebuild the per-vertex arrays of the partitions (weights, bone slots) are not this property's business: only
			// what concerns the triangles and their assignment
			auto errs = checkPartitions(nif, s, true, nullptr, false);
			for (auto& e : errs) {
				std::string cl = invClass(e);
				if (cl.find("triangle") == std::string::npos && cl.find("vertex-map") == std::string::npos && cl.find("dismember") == std::string::npos) continue;
				R_viol("partition-labels", "real/after-vertex-deletion/" + cl, what + fmt(" [%zu vertices deleted]: ", del.size()) + e);
				return;
			}
		}
		R_cover(what + std::to_string(variant));
		return;   // one shape per case
	}
}

struct Plan { size_t randomSeg; size_t parts; int exhN; };
Plan plan() { return g_cfg.tier ? Plan{24000, 8000, 6} : Plan{1500, 600, 4}; }

// exhaustive: n triangles, labels from {-1,0,1,2}
size_t exhCases(int maxN) { size_t c = 0; for (int n = 0; n <= maxN; n++) c += 1; return c * 3; }

void run(size_t idx) {
	Plan p = plan();
	size_t nExh = exhCases(p.exhN);
	if (idx < nExh) {
		int n = (int)(idx / 3), structure = (int)(idx % 3);
		Rng rng(mix(g_cfg.seed, 0xC17000 + idx));
		// n triangles over n+2 vertices (fan) so that every triangle is distinct
		Mesh mesh;
		int nv = std::max(3, n + 2);
		for (int i = 0; i < nv; i++) { mesh.verts.push_back(Vector3((float)i, (float)(i * i % 7), 0)); mesh.uvs.push_back(Vector2(0, 0)); mesh.normals.push_back(Vector3(0, 0, 1)); }
		for (int i = 0; i < n; i++) mesh.tris.push_back(Triangle(0, (uint16_t)(i + 1), (uint16_t)(i + 2)));
		// three declared ids arranged as: 3 flat segments | 1 segment with 2 subs | 2 segments, the second with 1 sub
		Spec sp;
		auto seg = [&](int id) { NifSegmentInfo s; s.partID = id; sp.declared.push_back(id); return s; };
		auto sub = [&](int id) { NifSubSegmentInfo s; s.partID = id; s.userSlotID = 30 + (uint32_t)id; s.material = 0xFFFFFFFFu; sp.declared.push_back(id); return s; };
		if (structure == 0) { sp.inf.segs = {seg(0), seg(1), seg(2)}; }
		else if (structure == 1) { auto s0 = seg(0); s0.subs = {sub(1), sub(2)}; sp.inf.segs = {s0}; }
		else { auto s0 = seg(1); auto s1 = seg(2); s1.subs = {sub(0)}; sp.inf.segs = {s0, s1}; }
		int k = 0;
		for (int id : sp.declared) sp.renum[id] = k++;
		size_t combos = 1;
		for (int i = 0; i < n; i++) combos *= 4;
		for (size_t c = 0; c < combos; c++) {
			std::vector<int> labels((size_t)n);
			size_t x = c;
			for (int i = 0; i < n; i++) { labels[(size_t)i] = (int)(x % 4) - 1; x /= 4; }
			std::string ls;
			for (auto l : labels) ls += std::to_string(l) + ",";
			segCase(fmt("exhaustive FO4 n=%d structure=%d labels=[%s]", n, structure, ls.c_str()), (c % 2) ? "FO76" : "FO4", mesh, sp, labels, rng, false);
		}
		if (n == 3 && structure == 1) R_sample("{\"kind\":\"exhaustive\",\"triangles\":3,\"structure\":\"one segment with two sub-segments\",\"labels\":\"all 64 lists over {-1,0,1,2}\"}");
		return;
	}
	idx -= nExh;
	if (idx < p.randomSeg) {
		uint64_t seed = mix(g_cfg.seed, 0xC17A00 + idx);
		Rng rng(seed);
		int nv = 3 + (int)rng.below(60), nt = (int)rng.below(idx % 11 == 0 ? 200 : 60);
		Mesh mesh = randomMesh(rng, nv, nt, false);
		if (idx % 13 == 0) mesh.tris.clear();
		Spec sp = makeSpec(rng, 1 + (int)rng.below(5), (int)rng.below(4), idx % 2 == 0);
		std::vector<int> labels(mesh.tris.size());
		int mode = (int)(idx % 5);
		for (auto& l : labels) {
			int d = sp.declared[rng.below((uint32_t)sp.declared.size())];
			l = mode == 0 ? d : mode == 1 ? (rng.coin(4) ? -1 : d) : mode == 2 ? sp.declared[0] : mode == 3 ? sp.declared.back() : (rng.coin() ? d : sp.declared[rng.below(2) % sp.declared.size()]);
		}
		segCase(fmt("random %s nv=%d nt=%zu segs=%zu ids=%zu mode=%d seed=%llu", idx % 3 ? "FO4" : "FO76", nv, mesh.tris.size(), sp.inf.segs.size(), sp.declared.size(), mode, (unsigned long long)seed), idx % 3 ? "FO4" : "FO76",
				mesh, sp, labels, rng, idx % 2 == 1);
		if (idx == 1) R_sample(fmt("{\"kind\":\"random segments\",\"vertices\":%d,\"triangles\":%zu,\"declared_ids\":%zu}", nv, mesh.tris.size(), sp.declared.size()));
		return;
	}
	idx -= p.randomSeg;
	if (idx >= p.parts) { realPartitionCase(idx - p.parts); return; }
	partitionCase(idx);
	if (idx == 0) R_sample("{\"kind\":\"partition labels\",\"versions\":[\"OB\",\"FO3\",\"SK\",\"SSE\"]}");
}

MonReg reg({"C17", "exploration",
			"FO4/FO76 BSSubIndexTriShape built through the API. Exhaustive: 0..4 (quick) / 0..6 (thorough) triangles x every label list over {-1,0,1,2} x three segment structures "
			"(3 flat segments, 1 segment with 2 sub-segments, 2 segments the second with a sub-segment, permuted ids). Random: 3..62 vertices, 0..200 triangles, 1..5 segments with 0..3 "
			"sub-segments, permuted ids, label modes (all assigned, 25% unassigned, all in first, all in last, skewed), user slots below/above 30, extra data; half of them followed by a "
			"random vertex deletion. Partition labels: OB/FO3/SK/SSE skinned shapes, 1..4 partitions, 25% unassigned (one in five with more bones than a partition may use: the rebuild splits, every triangle keeps its body part); the skinned shapes of the real samples (incl. strip partitions) labelled without a query before or a rebuild after, then copied, saved+reloaded or cut by a vertex deletion. Oracle after set, after set(get()), after save+reload and after "
			"vertex deletion(+reload): triangles are a permutation, read-back ids increase in segment order, every assigned label is preserved under the renumbering, every triangle "
			"is labelled, label runs contiguous and ordered, stored table contiguous/nested/summing to the triangle count, user-slot/material/extra data kept; getters are handed output objects that still hold an earlier answer; finally the segmentation is removed (no segments, all -1) and must read back as such in memory and after reload. Non-trivial = case that passed all stages.",
			[] { Plan p = plan(); return exhCases(p.exhN) + p.randomSeg + p.parts + realSamples().size() * 2; }, run, 6, 300.0, false, false, nullptr});
} // namespace
