// c08tool — the *other* program of the C08 check.  The same source is compiled against the vendored reference
// snapshot (/verif/ref, "reftool").  Commands:
//   gen   <dir> <seed> <tier> <shard> <nshards>   synthesise files with this build's reader, write their normal form <id>.nif
//   check <dir> <shard> <nshards> <out>           for every <id>.nif written by the other build: load, compare consumed bytes with the
//                                                  size table, raw-save and compare bytes; one result line per file
#include "oracles.hpp"
#include "c08plan.hpp"
#include <dirent.h>
#include <sys/mman.h>
#include <sys/resource.h>
#include <sys/wait.h>
#include <unistd.h>

using namespace vf;

int main(int argc, char** argv) {
	if (argc < 2) return 2;
	std::string cmd = argv[1];
	if (cmd == "gen" && argc >= 7) {
		std::string dir = argv[2];
		g_cfg.seed = strtoull(argv[3], nullptr, 10);
		g_cfg.tier = std::string(argv[4]) == "thorough";
		size_t shard = (size_t)atol(argv[5]), n = (size_t)atol(argv[6]);
		size_t total = c08::planSize();
		size_t written = 0;
		for (size_t i = shard; i < total; i += n) {
			c08::Item it = c08::planItem(i);
			SynthFile S = synthFile(*it.ver, it.type, it.seed, it.opts);
			if (!S.ok) continue;
			NifFile f;
			if (loadNif(f, S.bytes) != 0) continue;
			std::string N = saveNif(f, true);
			std::ofstream o(dir + "/" + it.id + ".nif", std::ios::binary);
			o << N;
			written++;
		}
		printf("gen %zu files\n", written);
		return 0;
	}
	if (cmd == "check" && argc >= 6) {
		std::string dir = argv[2];
		size_t shard = (size_t)atol(argv[3]), n = (size_t)atol(argv[4]);
		std::ofstream out(argv[5], std::ios::app);
		{ std::ofstream trunc(argv[5], std::ios::trunc); }
		std::vector<std::string> files;
		if (DIR* d = opendir(dir.c_str())) {
			while (auto e = readdir(d)) { std::string s = e->d_name; if (s.size() > 4 && s.substr(s.size() - 4) == ".nif") files.push_back(s); }
			closedir(d);
		}
		std::sort(files.begin(), files.end());
		// The files were written by the *other* build and may be arbitrarily wrong for this one: every file is judged in a forked
		// child (one child per run of files); a child that dies (allocation failure, crash, abort) is a verdict about the file it
		// was working on, not a failure of the tool.
		size_t* progress = (size_t*)mmap(nullptr, sizeof(size_t), PROT_READ | PROT_WRITE, MAP_SHARED | MAP_ANONYMOUS, -1, 0);
		size_t next = shard;
		while (next < files.size()) {
			*progress = next;
			out.flush();
			pid_t pid = fork();
			if (pid == 0) {
				struct rlimit rl{(rlim_t)8 << 30, (rlim_t)8 << 30};
				setrlimit(RLIMIT_AS, &rl);
				for (size_t i = next; i < files.size(); i += n) {
					*progress = i;
					std::string bytes = slurp(dir + "/" + files[i]);
					std::string site, err;
					int rc = 0;
					try {
						err = c07ReloadCheck(bytes, site, &rc);
						if (!err.empty()) { out << files[i] << "\tFAIL\t" << site << "\t" << err << "\n"; out.flush(); continue; }
						NifFile f;
						loadNif(f, bytes);
						SaveTrace tr;
						tr.recordTokens = true;
						std::string again = saveTraced(f, true, tr);
						{
							std::ofstream t(dir + "/" + files[i] + ".rtrace");
							for (auto& l : traceLines(tr)) t << l << "\n";
						}
						if (again != bytes) {
							FileDiff df = diffFiles(bytes, again, verClass(f.GetHeader().GetVersion()));
							out << files[i] << "\tFAIL\treencode/" << df.site << "\t" << df.detail << "\n";
							out.flush();
							continue;
						}
						out << files[i] << "\tOK\t\t\n";
					}
					catch (const std::exception& e) {
						out << files[i] << "\tFAIL\tother-build-throws\tthe other build throws while reading / re-writing the file: " << e.what() << "\n";
					}
					out.flush();
				}
				out.flush();
				_exit(0);
			}
			int st = 0;
			waitpid(pid, &st, 0);
			if (WIFEXITED(st) && WEXITSTATUS(st) == 0) break;
			size_t at = *progress;
			out.close();
			out.open(argv[5], std::ios::app);
			out << files[at] << "\tFAIL\tother-build-dies\tthe other build " << (WIFSIGNALED(st) ? "is killed by signal " + std::to_string(WTERMSIG(st)) : "exits with " + std::to_string(WEXITSTATUS(st))) << " while reading / re-writing the file\n";
			out.flush();
			next = at + n;
		}
		return 0;
	}
	fprintf(stderr, "usage: c08tool gen|check ...\n");
	return 2;
}
