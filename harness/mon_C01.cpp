// C01 — load/save round trip reaches a byte-level fixed point (raw: immediately; default: within two rounds).
#include "oracles.hpp"
#include "sources.hpp"

namespace {
using namespace vf;

struct Plan { int synSeeds; int mutPerSample; int apiModels; int edited; };
Plan plan() { return g_cfg.tier ? Plan{24, 6, 160, 4000} : Plan{4, 1, 40, 320}; }

struct Layout { size_t nReal, nMut, nSyn, nApi, nWit, nEdit; size_t total() const { return nReal + nMut + nSyn + nApi + nWit + nEdit; } };
// committed witness inputs of known findings (replayed on every run, independent of the seed)
const std::vector<Sample>& witnesses() {
	static std::vector<Sample> w;
	static bool done = false;
	if (!done) {
		done = true;
		std::string dir = g_cfg.verif + "/findings/C01";
		for (auto& n : listNifs(dir)) w.push_back({n, slurp(dir + "/" + n)});
	}
	return w;
}
size_t xSeeds() { return g_cfg.tier ? 6 : 1; }   // synthesised files per (type, extra Fallout 3 range version)
Layout layout() {
	Plan p = plan();
	Layout l;
	l.nReal = realSamples().size();
	l.nMut = l.nReal * (size_t)p.mutPerSample;
	l.nSyn = typeDB().names.size() * ((size_t)NVERS * (size_t)p.synSeeds + (size_t)NXVERS * xSeeds());
	l.nApi = (size_t)p.apiModels;
	l.nWit = witnesses().size();
	l.nEdit = (size_t)p.edited;
	return l;
}

void roundTrip(const std::string& F, const std::string& source, const std::string& focus, uint32_t focusIndex, const VerInfo* synVer) {
	R_eval();
	NifFile a;
	R_phase("load");
	int rc = loadNif(a, F);
	if (rc != 0) { R_stat("input_not_accepted"); return; }
	std::string vclass = verClass(a.GetHeader().GetVersion());
	R_stat("accepted/" + vclass);

	R_phase("save:raw");
	SaveTrace tr;
	std::string N = saveTraced(a, true, tr);
	R_stat("hook_fields_written", [&] { long s = 0; for (auto& b : tr.blocks) s += b.fields; return s; }());
	NifFile b;
	R_phase("reload:raw");
	int rc2 = loadNif(b, N);
	if (rc2 != 0) {
		R_viol("normal-form-reload", vclass + "/" + (focus.empty() ? "file" : focus), fmt("%s: the raw-saved normal form does not load again (rc=%d)", source.c_str(), rc2));
		return;
	}
	R_phase("save:raw2");
	std::string N2 = saveNif(b, true);
	if (N2 != N) {
		FileDiff d = diffFiles(N, N2, vclass);
		R_viol("raw-fixed-point", d.site, source + ": rawsave(load(N)) != N; " + d.detail);
	}

	// the file-name routes Load(path) / Save(path) give the same bytes as the stream routes (real samples and API models)
	if (source.rfind("real:", 0) == 0 || source.rfind("api:", 0) == 0) {
		R_phase("by-file-name");
		NifFile f;
		if (loadNifByName(f, F) != 0) R_viol("file-name-route", vclass + "/load", source + ": Load(file name) rejects a file that Load(stream) accepts");
		else {
			std::string out = saveNifByName(f, true);
			if (out != N) { FileDiff d = diffFiles(N, out, vclass); R_viol("file-name-route", "raw/" + d.site, source + ": Load(file name) + Save(file name) writes other bytes than the stream routes; " + d.detail); }
			R_stat("file_name_round_trips");
		}
	}

	// the same file accepted with the terrain load option (texture paths get the "Data\\" prefix): its normal form is a fixed point
	// under that option as well, and the default save converges (real samples and API models: the inputs that carry texture paths)
	if (source.rfind("real:", 0) == 0 || source.rfind("api:", 0) == 0) {
		R_phase("terrain-option");
		NifFile t;
		if (loadNif(t, F, true) != 0) R_viol("terrain-option", vclass + "/load", source + ": accepted with default load options, rejected with isTerrain");
		else {
			std::string T1 = saveNif(t, true);
			NifFile t2;
			if (loadNif(t2, T1, true) != 0) R_viol("terrain-option", vclass + "/reload", source + ": the normal form written after a terrain load does not load again");
			else {
				std::string T2 = saveNif(t2, true);
				if (T1 != T2) { FileDiff d = diffFiles(T1, T2, vclass); R_viol("terrain-option", "raw-fixed-point/" + d.site, source + ": loaded with isTerrain, rawsave(load(N)) != N; " + d.detail); }
				std::string cur = T1, d2, d3;
				bool okT = true;
				for (int r = 0; r < 3 && okT; r++) {
					NifFile c;
					if (loadNif(c, cur, true) != 0) { R_viol("terrain-option", vclass + "/default-reload", source + fmt(": loaded with isTerrain, output of default save round %d does not load", r)); okT = false; break; }
					cur = saveNif(c, false);
					if (r == 1) d2 = cur;
					if (r == 2) d3 = cur;
				}
				if (okT && d2 != d3) { FileDiff d = diffFiles(d2, d3, vclass); R_viol("terrain-option", "default-convergence/" + d.site, source + ": loaded with isTerrain, default save has not converged after two rounds; " + d.detail); }
				R_stat("terrain_option_round_trips");
			}
		}
	}

	// the same file through an object that has held another model before: same bytes (1 case in 3)
	if (hashStr(source) % 3 == 0) {
		R_phase("used-object");
		Rng hr(hashStr(source) ^ g_cfg.seed);
		for (int raw = 1; raw >= 0; raw--) {
			NifFile u;
			std::string hist = useObject(u, hr);
			if (loadNif(u, F) != 0) { R_viol("object-history", vclass + "/load", source + ": accepted by a fresh object, rejected by an object that " + hist); break; }
			std::string out = saveNif(u, raw == 1);
			std::string want;
			if (raw) want = N;
			else { NifFile c; loadNif(c, F); want = saveNif(c, false); }
			if (out != want) {
				FileDiff d = diffFiles(want, out, vclass);
				R_viol("object-history", std::string(raw ? "raw/" : "default/") + d.site, source + ": a NifFile object that " + hist + " writes this file differently from a fresh object; " + d.detail);
				break;
			}
			R_stat("used_object_saves_compared");
		}
	}

	// default options: D2 == D3
	R_phase("default-rounds");
	std::string D[3];
	std::string cur = F;
	bool ok = true;
	for (int r = 0; r < 3 && ok; r++) {
		NifFile c;
		int rcc = loadNif(c, cur);
		if (rcc != 0) {
			R_viol("default-save-reload", vclass + "/" + (focus.empty() ? "file" : focus), fmt("%s: output of default save round %d does not load (rc=%d)", source.c_str(), r, rcc));
			ok = false;
			break;
		}
		D[r] = saveNif(c, false);
		cur = D[r];
	}
	if (g_cfg.verbose) {
		auto dump = [](const char* n, const std::string& b) { std::ofstream f(std::string("/tmp/c01dbg_") + n + ".nif", std::ios::binary); f << b; };
		dump("F", F); dump("N", N); dump("N2", N2); dump("D1", D[0]); dump("D2", D[1]); dump("D3", D[2]);
	}
	if (ok && D[1] != D[2]) {
		FileDiff d = diffFiles(D[1], D[2], vclass);
		R_viol("default-convergence", d.site, source + ": default save has not converged after two rounds; " + d.detail);
	}

	// non-triviality: the focus block (or, for whole files, any block) carries populated content in the normal form
	if (!focus.empty() && synVer && focusIndex < tr.blocks.size()) {
		size_t s = tr.blocks[focusIndex].start;
		size_t e = focusIndex + 1 < tr.blocks.size() ? tr.blocks[focusIndex + 1].start : tr.endPos;
		std::string payload = N.substr(s, e - s);
		if (payload != defaultPayload(*synVer, focus)) {
			R_cover(fmt("%s/%s/%016llx", synVer->n, focus.c_str(), (unsigned long long)hashStr(payload)));
			R_stat("syn_focus_populated");
		}
		else R_stat("syn_focus_equals_default_payload");
		// does the focus survive the default save?
		indep::Header hd = indep::parse(D[1]);
		bool present = false;
		if (hd.ok)
			for (size_t i = 0; i < hd.numBlocks; i++)
				if (hd.typeOf(i) == focus) present = true;
		R_stat(present ? "syn_focus_survives_default_save" : "syn_focus_pruned_by_default_save");
	}
	else if (focus.empty() && tr.blocks.size() > 1) R_cover(fmt("%s/%016llx", source.c_str(), (unsigned long long)hashStr(N)));
}

void run(size_t idx) {
	Layout l = layout();
	Plan p = plan();
	if (idx < l.nReal) {
		auto& s = realSamples()[idx];
		R_caseDesc("real:" + s.name);
		roundTrip(s.bytes, "real:" + s.name, "", 0, nullptr);
		if (idx == 0) R_sample(fmt("{\"source\":\"real\",\"file\":\"%s\",\"bytes\":%zu}", s.name.c_str(), s.bytes.size()));
		return;
	}
	idx -= l.nReal;
	if (idx < l.nMut) {
		auto& s = realSamples()[idx / (size_t)p.mutPerSample];
		uint64_t seed = mix(g_cfg.seed, 0xA170000 + idx);
		R_caseDesc(fmt("mut:%s:%llu", s.name.c_str(), (unsigned long long)seed));
		long changed = 0;
		std::string m = mutateFloats(s.bytes, seed, &changed);
		if (m.empty()) { R_stat("mutator_rejected"); return; }
		R_stat("mutated_float_fields", changed);
		roundTrip(m, fmt("mut:%s:%llu", s.name.c_str(), (unsigned long long)seed), "", 0, nullptr);
		if (idx == 0) R_sample(fmt("{\"source\":\"mut\",\"file\":\"%s\",\"float_fields_replaced\":%ld}", s.name.c_str(), changed));
		return;
	}
	idx -= l.nMut;
	if (idx < l.nSyn) {
		const TypeDB& db = typeDB();
		size_t per = db.names.size() * (size_t)NVERS, nMain = per * (size_t)plan().synSeeds;
		size_t it, rest;
		if (idx < nMain) { it = idx / per; rest = idx % per; }
		else { size_t perX = db.names.size() * (size_t)NXVERS; it = (idx - nMain) / perX; rest = per + (idx - nMain) % perX; }
		const VerInfo& v = verAt(rest / db.names.size());
		const std::string& name = db.names[rest % db.names.size()];
		uint64_t seed = mix(mix(g_cfg.seed, hashStr(name)), (rest / db.names.size()) * 1000 + it);
		SynthOpts so;
		so.gen.maxCount = 1 + (int)(it % 4) + (g_cfg.tier && it >= 8 ? 4 : 0);
		so.gen.minCount = (it % 3 == 1) ? 1 : 0;
		so.gen.boolBias = (int)(it % 3);
		std::string desc = fmt("syn:%s:%s:it=%zu:seed=%llu", v.n, name.c_str(), it, (unsigned long long)seed);
		R_caseDesc(desc);
		SynthFile S = synthFile(v, name, seed, so);
		if (!S.ok) { R_stat("generator_overflow"); return; }
		R_stat("hook_fields_read_by_generator", S.fieldEvents);
		R_stat(admissible(name, v) ? "syn_admissible_pairs" : "syn_inadmissible_pairs");
		roundTrip(S.bytes, desc, name, S.focusIndex, &v);
		if ((rest % 997) == 0 && it == 0) {
			std::string tl;
			for (auto& t : S.types) tl += (tl.empty() ? "\"" : ",\"") + t + "\"";
			R_sample(fmt("{\"source\":\"syn\",\"version\":\"%s\",\"focus\":\"%s\",\"seed\":%llu,\"bytes\":%zu,\"plan\":[%s]}", v.n, name.c_str(), (unsigned long long)seed, S.bytes.size(), tl.c_str()));
		}
		return;
	}
	idx -= l.nSyn;
	if (idx >= l.nApi + l.nWit) {
		// edited models: real / API-built / synthesised models after random public-API edits (detached sub-graphs, deleted blocks,
		// added nodes, clones, ...), and synthesised files with reversed block order (children stored before their parents)
		size_t e = idx - l.nApi - l.nWit;
		uint64_t seed = mix(g_cfg.seed, 0xED1700 + e);
		Rng rng(seed);
		NifFile n;
		std::string src;
		int kind = (int)(e % 4);
		if (kind == 0) { auto& s = realSamples()[(e / 4) % realSamples().size()]; if (loadNif(n, s.bytes) != 0) return; src = "edited real:" + s.name; }
		else if (kind == 1) { ApiModel m = buildApiModel(seed, (int)e); if (!m.ok || loadNif(n, m.bytes) != 0) return; src = "edited api:" + m.desc; }
		else {
			const TypeDB& db = typeDB();
			const std::string& focus = db.names[rng.below((uint32_t)db.names.size())];
			const VerInfo& v = VERS[rng.below((uint32_t)NVERS)];
			SynthOpts so;
			so.gen.maxCount = 2 + (int)rng.below(3);
			so.extraBlocks = 8;
			SynthFile S = synthFile(v, focus, seed, so);
			if (!S.ok || loadNif(n, S.bytes) != 0) return;
			src = fmt("%s syn:%s:%s:seed=%llu", kind == 2 ? "reversed" : "edited", v.n, focus.c_str(), (unsigned long long)seed);
		}
		if (n.HasUnknown()) return;
		if (kind == 2) {
			uint32_t nb = n.GetHeader().GetNumBlocks();
			std::vector<uint32_t> perm(nb);
			for (uint32_t i = 0; i < nb; i++) perm[i] = i == 0 ? 0 : nb - i;   // root stays first, everything else reversed
			n.GetHeader().SetBlockOrder(perm);
		}
		else {
			std::string log = applyRandomEdits(n, rng, 2 + (int)rng.below(5));
			src += " edits: " + log;
		}
		R_caseDesc(src);
		std::string bytes = saveNif(n, true);
		roundTrip(bytes, src.substr(0, 500), "", 0, nullptr);
		if (e < 2) R_sample(fmt("{\"source\":\"edited\",\"history\":\"%s\"}", jesc(src.substr(0, 300)).c_str()));
		return;
	}
	if (idx >= l.nApi) {
		auto& w = witnesses()[idx - l.nApi];
		R_caseDesc("witness:" + w.name);
		roundTrip(w.bytes, "witness:" + w.name, "", 0, nullptr);
		return;
	}
	{
		uint64_t seed = mix(g_cfg.seed, 0xA91000 + idx);
		ApiOpts tb;
		tb.version = "OB";
		tb.tangents = true;
		tb.foreignBinaryExtraFirst = true;
		// one model in six: Oblivion shapes with tangents whose extra data list starts with a binary block of another name
		ApiModel m = idx % 6 == 3 ? buildApiModel(seed, (int)idx, &tb) : buildApiModel(seed, (int)idx);
		R_caseDesc("api:" + m.desc);
		if (!m.ok) { R_stat("api_model_rejected"); return; }
		if (idx % 6 == 0 && m.nif->GetRootNode()) {
			// Oblivion stores strings inline: texts at the limit of what the reader takes in one piece (2048 characters)
			static const size_t LEN[] = {2046, 2047, 2048, 255, 256};
			size_t len = LEN[(idx / 6) % 5];
			auto sed = std::make_unique<NiStringExtraData>();
			sed->name.get() = "UPB";
			std::string text;
			for (size_t i = 0; i < len; i++) text += (char)('a' + (i * 11 + len) % 26);
			sed->stringData.get() = text;
			m.nif->AssignExtraData(m.nif->GetRootNode(), std::move(sed));
			NifFile cp(*m.nif);
			m.bytes = saveNif(cp, true);
			m.desc += fmt(" [inline string of %zu characters]", len);
			R_caseDesc("api:" + m.desc);
			// the text itself has to come back (a shifted parse can still reach a fixed point)
			NifFile re;
			bool found = false;
			if (loadNif(re, m.bytes) == 0)
				for (uint32_t b = 0; b < re.GetHeader().GetNumBlocks(); b++)
					if (auto x = re.GetHeader().GetBlock<NiStringExtraData>(b))
						if (x->stringData.get() == text) found = true;
			if (!found) R_viol("inline-string", fmt("OB/%zu", len), "api:" + m.desc + fmt(": a string of %zu characters written by the library is not read back", len));
		}
		roundTrip(m.bytes, "api:" + m.desc, "", 0, nullptr);
		if (idx == 0) R_sample(fmt("{\"source\":\"api\",\"model\":\"%s\",\"bytes\":%zu}", jesc(m.desc).c_str(), m.bytes.size()));
	}
}

MonReg reg({"C01", "exploration",
			"inputs: the 52 real sample files, float-mutated variants of them (layout preserved), typed synthesis of a populated instance of each of the 304 registered block types in each "
			"of 14 versions (plus 22 further Fallout 3 range streams around every stream value the Sync code compares against) inside a planned file (root, holder chain to the focus, type-compatible companions; 2 seeds quick / 16 thorough), models built through the public API, and edited models (random API edit sequences incl. detached sub-graphs on real/API/synthesised models; synthesised files with reversed block order). "
			"Every third input also passes through a NifFile object that has held another model (loaded sample, sample with an unknown block type, created model) and must be written to the same bytes as by a fresh object; real samples and API models are also taken through the same oracle with the terrain load option (Data\\ path prefix). "
			"Oracle per accepted input F: N=rawsave(load(F)) loads and rawsave(load(N))==N byte for byte (diffed block by block); default save: D2==D3. Non-trivial = synthesised focus "
			"block whose payload in N differs from a default-constructed block, or a multi-block real/API file; distinct by (version,type,payload hash).",
			[] { return layout().total(); }, run, 60, 120.0, false, false, nullptr});
} // namespace
