// Partition invariants of C10 (also used by C09 and C12): returns a list of violated invariants.
#pragma once
#include "common.hpp"

namespace vf {

inline Triangle normTri(Triangle t) { t.rot(); return t; }

inline int boneLimitFor(const NiVersion& v) { return (v.IsOB() || v.IsFO3()) ? 18 : v.IsSSE() ? 80 : 65535; }

// requireCover: every shape triangle must lie in exactly one partition (false: at most one)
// exactVertexMap: the vertex map must equal the set of used vertices (after a rebuild); false: it only has to contain them (after vertex deletion)
// bindingVsSkinData: after a rebuild, the bones and weights a partition stores for a vertex (resolved through the partition's bone list)
//   must be the normalised four largest NiSkinData influences of that vertex
inline std::vector<std::string> checkPartitions(NifFile& nif, NiShape* s, bool requireCover, long* trianglesChecked = nullptr, bool exactVertexMap = true, bool bindingVsSkinData = false) {
	std::vector<std::string> err;
	auto& hdr = nif.GetHeader();
	auto si = hdr.GetBlock<NiSkinInstance>(s->SkinInstanceRef());
	if (!si) { err.push_back("no-skin-instance"); return err; }
	auto sp = hdr.GetBlock(si->skinPartitionRef);
	auto sd = hdr.GetBlock(si->dataRef);
	if (!sp || !sd) { err.push_back("no-partition-or-data"); return err; }
	int boneLimit = boneLimitFor(hdr.GetVersion());
	std::vector<Triangle> tris;
	s->GetTriangles(tris);
	std::multiset<std::tuple<int, int, int>> want, got;
	for (auto t : tris) { t = normTri(t); want.insert({t.p1, t.p2, t.p3}); }
	sp->PrepareTrueTriangles();
	uint16_t nv = s->GetNumVertices();
	if (sp->numPartitions != sp->partitions.size()) err.push_back(fmt("numPartitions(%u)!=partitions.size(%zu)", sp->numPartitions, sp->partitions.size()));
	for (size_t pi = 0; pi < sp->partitions.size(); pi++) {
		auto& p = sp->partitions[pi];
		for (auto t : p.trueTriangles) { t = normTri(t); got.insert({t.p1, t.p2, t.p3}); }
		std::set<uint16_t> used;
		for (auto& t : p.trueTriangles) { used.insert(t.p1); used.insert(t.p2); used.insert(t.p3); }
		std::set<uint16_t> vm(p.vertexMap.begin(), p.vertexMap.end());
		if (vm.size() != p.vertexMap.size()) err.push_back(fmt("vertex-map-duplicates(p%zu)", pi));
		if (exactVertexMap) { if (vm != used) err.push_back(fmt("vertex-map!=used-vertices(p%zu: %zu vs %zu)", pi, vm.size(), used.size())); }
		else if (!std::includes(vm.begin(), vm.end(), used.begin(), used.end())) err.push_back(fmt("vertex-map-misses-used-vertices(p%zu)", pi));
		for (auto v : p.vertexMap) if (v >= nv) { err.push_back(fmt("vertex-map-out-of-range(p%zu)", pi)); break; }
		if (p.numVertices != p.vertexMap.size()) err.push_back(fmt("numVertices-counter(p%zu)", pi));
		if (p.numTriangles != p.trueTriangles.size() && p.numStrips == 0) err.push_back(fmt("numTriangles-counter(p%zu: %u vs %zu)", pi, p.numTriangles, p.trueTriangles.size()));
		if (p.bones.size() != p.numBones) err.push_back(fmt("numBones-counter(p%zu)", pi));
		if ((int)p.numBones > boneLimit) err.push_back(fmt("bone-limit(p%zu: %u > %d)", pi, p.numBones, boneLimit));
		for (auto b : p.bones) if (b >= sd->numBones) { err.push_back(fmt("partition-bone-out-of-range(p%zu: %u >= %u)", pi, b, sd->numBones)); break; }
		if (p.hasVertexWeights) {
			if (p.vertexWeights.size() != p.vertexMap.size()) err.push_back(fmt("vertex-weights-size(p%zu)", pi));
			for (auto& w : p.vertexWeights) {
				float sum = w.w1 + w.w2 + w.w3 + w.w4;
				if (w.w1 < 0 || w.w2 < 0 || w.w3 < 0 || w.w4 < 0) { err.push_back(fmt("negative-weight(p%zu)", pi)); break; }
				if (!(std::fabs(sum - 1) < 1e-3 || sum == 0)) { err.push_back(fmt("weight-sum(p%zu: %g)", pi, sum)); break; }
			}
		}
		if (p.hasBoneIndices) {
			if (p.boneIndices.size() != p.vertexMap.size()) err.push_back(fmt("bone-indices-size(p%zu)", pi));
			int lim = std::max<int>(1, p.numBones);
			for (auto& b : p.boneIndices) if (b.i1 >= lim || b.i2 >= lim || b.i3 >= lim || b.i4 >= lim) { err.push_back(fmt("bone-slot-out-of-range(p%zu)", pi)); break; }
		}
		if (sp->bMappedIndices && !p.triangles.empty()) {
			if (p.triangles.size() != p.trueTriangles.size()) err.push_back(fmt("mapped-triangle-count(p%zu)", pi));
			else
				for (size_t k = 0; k < p.triangles.size(); k++) {
					auto m = p.triangles[k];
					if (m.p1 >= p.vertexMap.size() || m.p2 >= p.vertexMap.size() || m.p3 >= p.vertexMap.size()) { err.push_back(fmt("mapped-triangle-out-of-range(p%zu)", pi)); break; }
					Triangle t(p.vertexMap[m.p1], p.vertexMap[m.p2], p.vertexMap[m.p3]);
					auto a = normTri(t), b = normTri(p.trueTriangles[k]);
					if (a.p1 != b.p1 || a.p2 != b.p2 || a.p3 != b.p3) { err.push_back(fmt("mapped-triangle-mismatch(p%zu)", pi)); break; }
				}
		}
		if (!sp->bMappedIndices && !p.triangles.empty() && p.triangles.size() == p.trueTriangles.size())
			for (size_t k = 0; k < p.triangles.size(); k++) {
				auto a = normTri(p.triangles[k]), b = normTri(p.trueTriangles[k]);
				if (a.p1 != b.p1 || a.p2 != b.p2 || a.p3 != b.p3) { err.push_back(fmt("unmapped-triangle-mismatch(p%zu)", pi)); break; }
			}
	}
	if (bindingVsSkinData && sd->hasVertWeights) {
		std::map<uint16_t, std::vector<std::pair<float, int>>> inf;   // vertex -> (weight, bone)
		for (size_t b = 0; b < sd->bones.size(); b++)
			for (auto& w : sd->bones[b].vertexWeights) inf[w.index].push_back({w.weight, (int)b});
		bool reported = false;
		for (size_t pi = 0; pi < sp->partitions.size() && !reported; pi++) {
			auto& p = sp->partitions[pi];
			if (!p.hasVertexWeights || !p.hasBoneIndices || p.vertexWeights.size() != p.vertexMap.size() || p.boneIndices.size() != p.vertexMap.size()) continue;
			for (size_t i = 0; i < p.vertexMap.size() && !reported; i++) {
				auto l = inf[p.vertexMap[i]];
				std::sort(l.rbegin(), l.rend());
				if (l.size() > 4 && std::fabs(l[3].first - l[4].first) < 1e-4f) continue;   // tie at the cut: not defined which one survives
				bool tie = false;
				for (size_t a = 0; a + 1 < l.size() && a < 4; a++) if (l[a].first == l[a + 1].first) tie = true;
				if (l.size() > 4) l.resize(4);
				float sum = 0;
				for (auto& x : l) sum += x.first;
				std::map<int, float> want2, got2;
				for (auto& x : l) if (sum > 0) want2[x.second] += x.first / sum;
				const float* pw = &p.vertexWeights[i].w1;
				const uint8_t* pb = &p.boneIndices[i].i1;
				for (int k = 0; k < 4; k++)
					if (pw[k] > 0 && pb[k] < p.bones.size()) got2[p.bones[pb[k]]] += pw[k];
				(void)tie;
				bool bad = false;
				for (auto& kv : want2) if (kv.second > 2e-3f && std::fabs((got2.count(kv.first) ? got2[kv.first] : 0.0f) - kv.second) > 2e-3f) bad = true;
				for (auto& kv : got2) if (kv.second > 2e-3f && !want2.count(kv.first)) bad = true;
				if (bad) {
					std::string ws, gs;
					for (auto& kv : want2) ws += fmt("%d=%.3f ", kv.first, kv.second);
					for (auto& kv : got2) gs += fmt("%d=%.3f ", kv.first, kv.second);
					err.push_back(fmt("partition-binding-vs-skin-data(p%zu vertex %u: skin data {%s} partition {%s})", pi, p.vertexMap[i], ws.c_str(), gs.c_str()));
					reported = true;
				}
			}
		}
	}
	if (trianglesChecked) *trianglesChecked += (long)want.size();
	if (requireCover) { if (want != got) err.push_back(fmt("triangle-cover(shape has %zu, partitions hold %zu)", want.size(), got.size())); }
	else {
		for (auto& t : got)
			if (got.count(t) > want.count(t)) { err.push_back("triangle-in-more-than-one-partition-or-unknown"); break; }
	}
	if (auto bd = dynamic_cast<BSDismemberSkinInstance*>(si))
		if (bd->partitions.size() != sp->partitions.size()) err.push_back(fmt("dismember-list(%u entries for %zu partitions)", bd->partitions.size(), sp->partitions.size()));
	return err;
}

// first token of an invariant message (used as violation site)
inline std::string invClass(const std::string& e) { return e.substr(0, e.find('(')); }

} // namespace vf
