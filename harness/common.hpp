// nifmon common infrastructure: PRNG, reporter, fork-isolated case runner, helpers.
#pragma once
#include <NifFile.hpp>
#include <Animation.hpp>
#include <ExtraData.hpp>
#include <Objects.hpp>
#include <Particles.hpp>
#include <Shaders.hpp>
#include <Skin.hpp>
#include <bhk.hpp>
#include <NifUtil.hpp>

#include <cstdint>
#include <cstdio>
#include <cstring>
#include <cmath>
#include <filesystem>
#include <fstream>
#include <functional>
#include <iostream>
#include <map>
#include <set>
#include <sstream>
#include <string>
#include <vector>

namespace vf {
using namespace nifly;

// ---------------------------------------------------------------- PRNG (xorshift64*)
struct Rng {
	uint64_t s;
	explicit Rng(uint64_t seed = 1) { s = seed ? seed : 0x9E3779B97F4A7C15ull; for (int i = 0; i < 4; i++) next(); }
	uint64_t next() { s ^= s << 13; s ^= s >> 7; s ^= s << 17; return s * 0x2545F4914F6CDD1Dull; }
	uint32_t below(uint32_t n) { return n ? (uint32_t)((next() >> 11) % n) : 0; }
	bool coin(uint32_t oneIn = 2) { return below(oneIn) == 0; }
	float unit() { return (float)((next() >> 40) / (double)(1ull << 24)); }          // [0,1)
	float range(float a, float b) { return a + (b - a) * unit(); }
};
inline uint64_t mix(uint64_t a, uint64_t b) { uint64_t x = a * 0x9E3779B97F4A7C15ull ^ (b + 0xD1B54A32D192ED03ull + (a << 6) + (a >> 2)); x ^= x >> 29; x *= 0xBF58476D1CE4E5B9ull; x ^= x >> 32; return x; }
inline uint64_t hashStr(const std::string& s) { uint64_t h = 1469598103934665603ull; for (unsigned char c : s) { h ^= c; h *= 1099511628211ull; } return h; }

// ---------------------------------------------------------------- versions
struct VerInfo { const char* n; uint32_t file, user, stream; };
extern const VerInfo VERS[];
extern const int NVERS;
// additional points inside the Fallout 3 version range (20.2.0.7, user 11, stream 12..82): one below, at and above every stream value the
// library's Sync code compares against (14, 16, 21, 24, 26, 28, 34, 76), so that a gate that is off by one has a file on the wrong side of it.
// Used by the format-level monitors (C01, C05, C07, C08) on top of VERS.
extern const VerInfo XVERS[];
extern const int NXVERS;
inline const VerInfo& verAt(size_t i) { return i < (size_t)NVERS ? VERS[i] : XVERS[i - (size_t)NVERS]; }
inline size_t nAllVers() { return (size_t)NVERS + (size_t)NXVERS; }
inline NiVersion toNiVersion(const VerInfo& v) { return NiVersion((NiFileVersion)v.file, v.user, v.stream); }
const VerInfo* findVer(const std::string& name);
std::string verClass(const NiVersion& v);   // OB / FO3 / SK / SSE / FO4 / FO76 / SF / SPECIAL / other

// ---------------------------------------------------------------- globals / config
struct Config {
	uint64_t seed = 1;
	int tier = 0;           // 0 quick, 1 thorough
	int shard = 0, nshards = 1;
	std::string repo = "/repo";
	std::string verif = "/verif";
	std::string outPath;    // JSONL result file
	long onlyCase = -1;     // replay a single case in-process
	bool verbose = false;
};
extern Config g_cfg;

// ---------------------------------------------------------------- reporter
std::string jesc(const std::string& s);
std::string hexs(const std::string& bytes, size_t maxBytes = 64);
void R_eval(long n = 1);
void R_cover(const std::string& key);
void R_stat(const std::string& name, long n = 1);
void R_sample(const std::string& json);        // json must be a valid JSON value
void R_viol(const std::string& oracle, const std::string& site, const std::string& detail);
void R_phase(const char* phase);
void R_caseDesc(const std::string& d);         // human readable description of the current case
long R_violCount();
void R_flush();

// ---------------------------------------------------------------- monitors
struct Monitor {
	const char* id;                 // "C01"
	const char* level;              // evidence level category
	const char* rule;               // how cases are enumerated and what makes one non-trivial
	std::function<size_t()> ncases; // deterministic for (seed, tier)
	std::function<void(size_t)> run;
	int batch = 50;                 // cases per forked child
	double cpuLimit = 60.0;         // CPU seconds per case before it counts as a hang
	bool hangIsViolation = false;   // C15/C16: a confirmed hang is a violation; otherwise inconclusive
	bool exhaustive = false;
	std::function<void()> init;     // optional one-time init in the shard parent (before forking)
};
void registerMonitor(const Monitor& m);
struct MonReg { explicit MonReg(const Monitor& m) { registerMonitor(m); } };
int runMonitor(const std::string& id);   // returns process exit code (0 ok, 2 harness failure)

// ---------------------------------------------------------------- file helpers
std::string slurp(const std::string& path);
std::vector<std::string> listNifs(const std::string& dir);
struct Sample { std::string name; std::string bytes; };
const std::vector<Sample>& realSamples();    // tests/input + tests/expected (deduplicated by content)

inline int loadNif(NifFile& n, const std::string& b, bool terrain = false) {
	std::istringstream is(b, std::ios::binary);
	NifLoadOptions o; o.isTerrain = terrain;
	return n.Load(is, o);
}
inline std::string saveNif(NifFile& n, bool raw) {
	std::ostringstream os(std::ios::binary);
	NifSaveOptions o;
	if (raw) { o.optimize = false; o.sortBlocks = false; }
	n.Save(os, o);
	return os.str();
}

// Save into a stream that already holds `pre` (a container, an archive member, a second model appended): returns the whole stream
inline std::string saveNifAfter(NifFile& n, bool raw, const std::string& pre) {
	std::ostringstream os(std::ios::binary);
	os.write(pre.data(), (std::streamsize)pre.size());
	NifSaveOptions o;
	if (raw) { o.optimize = false; o.sortBlocks = false; }
	n.Save(os, o);
	return os.str();
}

// the file-name routes of Load / Save (scratch files under <verif>/.cache/tmp, removed at once)
std::string scratchPath(const char* tag);
inline int loadNifByName(NifFile& n, const std::string& b, bool terrain = false) {
	std::string p = scratchPath("load");
	{ std::ofstream f(p, std::ios::binary); f.write(b.data(), (std::streamsize)b.size()); }
	NifLoadOptions o; o.isTerrain = terrain;
	int rc = n.Load(std::filesystem::path(p), o);
	std::remove(p.c_str());
	return rc;
}
inline std::string saveNifByName(NifFile& n, bool raw) {
	std::string p = scratchPath("save");
	NifSaveOptions o;
	if (raw) { o.optimize = false; o.sortBlocks = false; }
	n.Save(std::filesystem::path(p), o);
	std::string out = slurp(p);
	std::remove(p.c_str());
	return out;
}

struct HookScope {
	verif::SyncHooks* prev;
	explicit HookScope(verif::SyncHooks* h) : prev(verif::g_hooks) { verif::g_hooks = h; }
	~HookScope() { verif::g_hooks = prev; }
};

template<class... A> std::string fmt(const char* f, A... a) {
	char buf[1024]; snprintf(buf, sizeof buf, f, a...); return buf;
}
} // namespace vf
