// C19 — texture path clean-up is canonical and idempotent.
// Oracle 1: a regex-free reference model of the documented pipeline; oracle 2: postconditions taken from the
// statement alone (no surrounding whitespace, no '/', no doubled backslash, required prefixes, blank -> empty,
// idempotence).  Paths are injected into every slot kind of models built through the API and read back through
// the texture accessors after an explicit TrimTexturePaths and after save + Load (with and without the terrain option).
#include "common.hpp"

namespace {
using namespace vf;

bool ieq(char a, char b) { return std::tolower((unsigned char)a) == std::tolower((unsigned char)b); }
bool istarts(const std::string& s, const std::string& p) {
	if (s.size() < p.size()) return false;
	for (size_t i = 0; i < p.size(); i++)
		if (!ieq(s[i], p[i])) return false;
	return true;
}
bool isSpaceC(char c) { return c == ' ' || c == '\t' || c == '\n' || c == '\v' || c == '\f' || c == '\r'; }

// reference model (Linux path semantics: after slash conversion every path is relative)
std::string pathModel(std::string t, bool obOrSpecial, bool terrain) {
	if (t.empty()) return t;
	size_t a = 0, b = t.size();
	while (a < b && isSpaceC(t[a])) a++;
	while (b > a && isSpaceC(t[b - 1])) b--;
	t = t.substr(a, b - a);
	if (t.empty()) return t;
	std::string c;
	for (size_t i = 0; i < t.size(); i++) {
		if (t[i] == '/' || t[i] == '\\') {
			if (c.empty() || c.back() != '\\') c.push_back('\\');   // any run of slashes of either kind becomes one backslash
		}
		else c.push_back(t[i]);
	}
	t = c;
	if (!istarts(t, "textures\\")) {
		const std::string key = "\\textures\\";
		for (size_t p = 0; p + key.size() <= t.size(); p++) {
			if (t[p] == '\n' || t[p] == '\r') break;   // '.' of the library's pattern does not cross line terminators
			if (istarts(t.substr(p), key)) { t = t.substr(p + key.size()); break; }
		}
	}
	size_t k = 0;
	while (k < t.size() && (t[k] == '\\' || isSpaceC(t[k]))) k++;   // leading backslashes and the whitespace they hid
	t = t.substr(k);
	if (!obOrSpecial && !istarts(t, "textures\\")) t = "textures\\" + t;
	if (terrain && !istarts(t, "data\\")) t = "Data\\" + t;
	return t;
}

// postconditions from the statement only
std::string postconditions(const std::string& in, const std::string& out, bool obOrSpecial, bool terrain) {
	bool blank = true;
	for (char c : in)
		if (!isSpaceC(c)) blank = false;
	if (blank) return out.empty() ? "" : "blank-not-empty";
	if (!out.empty() && (isSpaceC(out.front()) || isSpaceC(out.back()))) return "surrounding-whitespace";
	if (out.find('/') != std::string::npos) return "forward-slash";
	if (out.find("\\\\") != std::string::npos) return "double-backslash";
	if (terrain) { if (!istarts(out, "data\\")) return "missing-data-prefix"; }
	else if (!obOrSpecial && !istarts(out, "textures\\")) return "missing-textures-prefix";
	return "";
}

const char* TOK[] = {"\\", "/", " ", ".", "a", ":", "textures", "data"};
struct Plan { int maxTokens; size_t randomCases; };
Plan plan() { return g_cfg.tier ? Plan{5, 2500} : Plan{4, 160}; }
const size_t PER_CASE = 96;

size_t enumCount(int L) { size_t n = 0, p = 1; for (int l = 1; l <= L; l++) { p *= 8; n += p; } return n + 1; }   // + empty string
std::string enumString(size_t idx) {
	if (idx == 0) return "";
	idx--;
	size_t p = 8;
	int len = 1;
	while (idx >= p) { idx -= p; p *= 8; len++; }
	std::string s;
	for (int i = 0; i < len; i++) { s += TOK[idx % 8]; idx /= 8; }
	return s;
}
std::string randomPath(Rng& r, int variant) {
	std::string s;
	static const char* pre[] = {"", "C:\\", "c:/", "\\\\server\\share\\", "//host/x/", "Data\\", "data/Textures/", "  ", "\t", "textures\\", "TEXTURES/", "..\\", "x\\textures\\y\\textures\\"};
	s += pre[r.below(13)];
	size_t len = variant % 11 == 0 ? 3000 + r.below(1500) : r.below(60);
	for (size_t i = 0; i < len; i++) {
		uint32_t k = r.below(20);
		char c;
		if (k < 3) c = '\\';
		else if (k < 5) c = '/';
		else if (k == 5) c = ' ';
		else if (k == 6) c = (char)(1 + r.below(255));   // arbitrary byte incl. non-UTF-8, never NUL (a NUL ends the stored C string)
		else if (k == 7) c = '.';
		else if (k == 8 && i + 9 < len) { s += "textures\\"; i += 8; continue; }
		else c = (char)('a' + r.below(26));
		s.push_back(c);
	}
	if (r.coin(4)) s += "  ";
	if (r.coin(6)) s += "\r\n";
	return s;
}

// ---- slot kinds
enum Slot { TEXSET, EFFECT, SOURCE };
const char* SLOTN[] = {"texture-set", "effect-shader", "source-texture"};

struct Model {
	NifFile nif;
	std::vector<NiShape*> shapes;
	size_t capacity = 0;
};

std::vector<Vector3> V3{{0, 0, 0}, {1, 0, 0}, {0, 1, 0}};
std::vector<Triangle> T1{Triangle(0, 1, 2)};
std::vector<Vector2> UV3{{0, 0}, {1, 0}, {0, 1}};

// builds a model with room for n paths in the given slot kind and stores the paths
bool buildModel(Model& m, const NiVersion& ver, Slot slot, const std::vector<std::string>& paths) {
	m.nif.Create(ver);
	auto& hdr = m.nif.GetHeader();
	size_t n = paths.size();
	if (slot == TEXSET) {
		auto s = m.nif.CreateShapeFromData("s0", &V3, &T1, &UV3);
		if (!s) return false;
		auto sh = m.nif.GetShader(s);
		if (!sh || !sh->HasTextureSet()) return false;
		auto ts = hdr.GetBlock(sh->TextureSetRef());
		if (!ts) return false;
		ts->textures.resize((uint32_t)n);
		for (size_t i = 0; i < n; i++) ts->textures[(uint32_t)i].get() = paths[i];
		m.shapes.push_back(s);
	}
	else if (slot == EFFECT) {
		for (size_t i = 0; i < n; i += 5) {
			auto s = m.nif.CreateShapeFromData("s" + std::to_string(i / 5), &V3, &T1, &UV3);
			if (!s) return false;
			m.nif.DeleteShader(s);
			auto eff = std::make_unique<BSEffectShaderProperty>();
			NiString* f[5] = {&eff->sourceTexture, &eff->normalTexture, &eff->greyscaleTexture, &eff->envMapTexture, &eff->envMaskTexture};
			for (size_t k = 0; k < 5 && i + k < n; k++) f[k]->get() = paths[i + k];
			uint32_t id = hdr.AddBlock(std::move(eff));
			s = m.nif.FindBlockByName<NiShape>("s" + std::to_string(i / 5));
			s->ShaderPropertyRef()->index = id;
			m.shapes.push_back(s);
		}
	}
	else {
		for (size_t i = 0; i < n; i += 10) {
			std::string name = "s" + std::to_string(i / 10);
			NiShape* s = nullptr;
			if ((i / 10) % 2 == 1 && m.nif.GetRootNode()) {
				// every second carrier is a particle shape (NiGeometry, but not triangle based): it has a property list like any other shape
				auto ps = std::make_unique<NiAutoNormalParticles>();
				ps->name.get() = name;
				uint32_t pid = hdr.AddBlock(std::move(ps));
				m.nif.GetRootNode()->childRefs.AddBlockRef(pid);
				s = m.nif.FindBlockByName<NiShape>(name);
				if (!s) return false;
			}
			else {
				s = m.nif.CreateShapeFromData(name, &V3, &T1, &UV3);
				if (!s) return false;
				m.nif.DeleteShader(s);   // GetTextureSlot prefers a shader's texture set over the texturing property
				s = m.nif.FindBlockByName<NiShape>(name);
			}
			auto tp = std::make_unique<NiTexturingProperty>();
			tp->textureCount = hdr.GetVersion().File() >= V20_2_0_5 ? 12 : 10;   // from 20.2.0.5 on the last two decal slots are only stored when the count exceeds 10 / 11
			bool* has[10] = {&tp->hasBaseTex, &tp->hasDarkTex, &tp->hasDetailTex, &tp->hasGlossTex, &tp->hasGlowTex, &tp->hasBumpTex, &tp->hasDecalTex0, &tp->hasDecalTex1, &tp->hasDecalTex2, &tp->hasDecalTex3};
			TexDesc* td[10] = {&tp->baseTex, &tp->darkTex, &tp->detailTex, &tp->glossTex, &tp->glowTex, &tp->bumpTex, &tp->decalTex0, &tp->decalTex1, &tp->decalTex2, &tp->decalTex3};
			for (size_t k = 0; k < 10 && i + k < n; k++) {
				auto st = std::make_unique<NiSourceTexture>();
				st->fileName.get() = paths[i + k];
				*has[k] = true;
				td[k]->sourceRef.index = hdr.AddBlock(std::move(st));
			}
			uint32_t id = hdr.AddBlock(std::move(tp));
			s = m.nif.FindBlockByName<NiShape>(name);
			s->propertyRefs.AddBlockRef(id);
			m.shapes.push_back(s);
		}
	}
	return true;
}

std::vector<std::string> readBack(NifFile& nif, Slot slot, size_t n) {
	std::vector<std::string> out;
	// shapes are looked up block by block (not through GetShapes, which is also what the clean-up itself walks)
	std::map<std::string, NiShape*> byName;
	for (uint32_t b = 0; b < nif.GetHeader().GetNumBlocks(); b++)
		if (auto s = nif.GetHeader().GetBlock<NiShape>(b)) byName[s->name.get()] = s;
	if (slot == TEXSET) {
		auto s = byName["s0"];
		for (size_t i = 0; i < n; i++) { std::string t; if (s) nif.GetTextureSlot(s, t, (uint32_t)i); out.push_back(t); }
	}
	else if (slot == EFFECT) {
		static const uint32_t idx[5] = {0, 1, 3, 4, 5};
		for (size_t i = 0; i < n; i++) { auto s = byName["s" + std::to_string(i / 5)]; std::string t; if (s) nif.GetTextureSlot(s, t, idx[i % 5]); out.push_back(t); }
	}
	else {
		for (size_t i = 0; i < n; i++) { auto s = byName["s" + std::to_string(i / 10)]; std::string t; if (s) nif.GetTextureSlot(s, t, (uint32_t)(i % 10)); out.push_back(t); }
	}
	return out;
}

void judge(const std::vector<std::string>& in, const std::vector<std::string>& out, bool ob, bool terrain, Slot slot, const char* how, const char* vname) {
	for (size_t i = 0; i < in.size(); i++) {
		R_eval();
		std::string want = pathModel(in[i], ob, terrain);
		std::string site = std::string(SLOTN[slot]);
		if (out[i] != want) {
			// name the first stage-level symptom
			std::string pc = postconditions(in[i], out[i], ob, terrain);
			R_viol("model-mismatch", site + "/" + (out[i] == in[i] && want != in[i] ? "not-cleaned" : pc.empty() ? "differs" : pc),
				   fmt("%s %s %s%s: input '%s' (hex %s) -> '%s', reference model '%s'", vname, SLOTN[slot], how, terrain ? "+terrain" : "", jesc(in[i].substr(0, 80)).c_str(), hexs(in[i], 24).c_str(),
					   jesc(out[i].substr(0, 80)).c_str(), jesc(want.substr(0, 80)).c_str()));
			continue;
		}
		std::string pc = postconditions(in[i], out[i], ob, terrain);
		if (!pc.empty())
			R_viol("postcondition", site + "/" + pc, fmt("%s %s %s%s: input '%s' (hex %s) -> '%s'", vname, SLOTN[slot], how, terrain ? "+terrain" : "", jesc(in[i].substr(0, 80)).c_str(), hexs(in[i], 24).c_str(), jesc(out[i].substr(0, 80)).c_str()));
		bool changed = out[i] != in[i];
		if (changed && !out[i].empty()) R_cover(std::string(vname) + SLOTN[slot] + how + (terrain ? "T" : "") + in[i]);
	}
}

void checkBatch(const std::vector<std::string>& paths, const VerInfo& v, Slot slot) {
	NiVersion ver = toNiVersion(v);
	bool ob = ver.IsOB() || ver.IsSpecial();
	// 1. explicit clean-up
	{
		Model m;
		R_phase("build");
		// every third batch is built in an object that has loaded a file with the terrain option before: a created model is an ordinary one
		uint64_t hh = hashStr(paths.empty() ? std::string() : paths[0]) + (uint64_t)slot + paths.size();
		bool used = hh % 3 == 0;
		if (used) {
			auto& rs = realSamples();
			loadNif(m.nif, rs[(hh / 3) % rs.size()].bytes, true);
			R_stat("cleanups_in_objects_that_held_a_terrain_file");
		}
		if (!buildModel(m, ver, slot, paths)) { R_stat("model_rejected"); return; }
		R_phase("trim");
		m.nif.TrimTexturePaths();
		auto out1 = readBack(m.nif, slot, paths.size());
		judge(paths, out1, ob, false, slot, used ? "TrimTexturePaths{object held a terrain file before Create}" : "TrimTexturePaths", v.n);
		R_phase("trim-again");
		m.nif.TrimTexturePaths();
		auto out2 = readBack(m.nif, slot, paths.size());
		for (size_t i = 0; i < paths.size(); i++)
			if (out1[i] != out2[i])
				R_viol("idempotence", std::string(SLOTN[slot]) + (ob && (out1[i].find("\\textures\\") != std::string::npos || [&] { std::string l; for (char ch : out1[i]) l.push_back((char)std::tolower((unsigned char)ch)); return l.find("\\textures\\") != std::string::npos; }()) ? "/ob-nested-textures-folder" : "/changes-on-second-cleanup"), fmt("%s %s: input '%s' (hex %s): first clean-up '%s', second '%s'", v.n, SLOTN[slot], jesc(paths[i].substr(0, 80)).c_str(),
																								 hexs(paths[i], 24).c_str(), jesc(out1[i].substr(0, 80)).c_str(), jesc(out2[i].substr(0, 80)).c_str()));
	}
	// 2. after Load (the file stores the raw paths), without and with the terrain option
	{
		Model m;
		std::vector<std::string> lp = paths;
		// inline strings of pre-20.1.0.3 files are read through a 2 KB buffer (longer ones do not survive Load at all,
		// which is not what this property is about): keep them below that size for the NiSourceTexture slots
		if (slot == SOURCE && ver.File() < V20_1_0_3)
			for (auto& x : lp)
				if (x.size() > 2000) x.resize(2000);
		// normal / env-map / env-mask paths of effect shaders are only part of the file format from FO4 on
		if (slot == EFFECT && ver.Stream() < 130)
			for (size_t i = 0; i < lp.size(); i++)
				if (i % 5 == 1 || i % 5 == 3 || i % 5 == 4) lp[i].clear();
		const std::vector<std::string>& paths2 = lp;
		if (!buildModel(m, ver, slot, paths2)) return;
		R_phase("save");
		std::string bytes = saveNif(m.nif, true);
		if (g_cfg.verbose) { std::ofstream f(fmt("/tmp/c19_%s_%s.nif", v.n, SLOTN[slot]), std::ios::binary); f << bytes; }
		for (int terrain = 0; terrain < 2; terrain++) {
			R_phase("load");
			NifFile l;
			if (loadNif(l, bytes, terrain == 1) != 0) { R_viol("load", "load", "saved path model does not load"); return; }
			auto out = readBack(l, slot, paths2.size());
			judge(paths2, out, ob, terrain == 1, slot, "Load", v.n);
			// the same file through Load(file name, options)
			NifFile l2;
			R_phase("load-by-name");
			if (loadNifByName(l2, bytes, terrain == 1) != 0) { R_viol("load", "load-by-name", "saved path model does not load by file name"); return; }
			auto out2 = readBack(l2, slot, paths2.size());
			judge(paths2, out2, ob, terrain == 1, slot, "Load(file name)", v.n);
		}
	}
}

const char* CURATED[] = {"textures\\actors\\character\\male\\body.dds", "Data\\Textures\\armor\\iron\\cuirass_n.dds", "data/textures/armor/iron/cuirass.dds", "  textures\\a.dds  ",
						 "C:\\Games\\Skyrim\\Data\\textures\\x\\y.dds", "c:/games/data/TEXTURES/x.dds", "\\\\server\\share\\textures\\x.dds", "x\\textures\\y\\textures\\z.dds",
						 "mods\\foo\\textures\\bar\\textures\\baz.dds", "textures\\\\double.dds", "textures//fwd.dds", "textures/\\mixed.dds", "\\textures\\lead.dds", "/textures/lead.dds",
						 "TeXtUrEs\\case.dds", "texturesx\\notfolder.dds", "a.dds", ".", "..\\..\\textures\\up.dds", "textures", "textures\\", "data\\a.dds", "Data\\", " ", "\t\n", "", "\\", "/",
						 "landscape\\dirt02.dds", "textures\\landscape\\dirt02_n.dds ", "\r\ntextures\\crlf.dds\r\n", "textures\\sp ace\\in side.dds"};
const size_t NCURATED = sizeof(CURATED) / sizeof(CURATED[0]);

void runCurated() {
	std::vector<std::string> paths(CURATED, CURATED + NCURATED);
	R_caseDesc("curated paths");
	for (const char* vn : {"OB", "FO3", "SK", "SSE", "FO4", "FO76"}) checkBatch(paths, *findVer(vn), TEXSET);
	for (const char* vn : {"SK", "SSE", "FO4"}) checkBatch(paths, *findVer(vn), EFFECT);
	checkBatch(paths, *findVer("OB"), SOURCE);
	checkBatch(paths, *findVer("FO3"), SOURCE);   // same blocks, file names in the header string table instead of inline
	R_sample(fmt("{\"kind\":\"curated\",\"in\":\"%s\",\"model_SK\":\"%s\",\"model_OB\":\"%s\"}", jesc(CURATED[4]).c_str(), jesc(pathModel(CURATED[4], false, false)).c_str(), jesc(pathModel(CURATED[4], true, false)).c_str()));
}

void run(size_t idx) {
	Plan p = plan();
	if (idx == 0) { runCurated(); return; }
	idx--;
	size_t nEnum = enumCount(p.maxTokens);
	size_t enumCases = (nEnum + PER_CASE - 1) / PER_CASE;
	static const char* VN[] = {"OB", "SK", "FO4", "FO3", "SSE"};
	std::vector<std::string> paths;
	size_t variant;
	if (idx < enumCases) {
		for (size_t k = idx * PER_CASE; k < std::min(nEnum, (idx + 1) * PER_CASE); k++) paths.push_back(enumString(k));
		variant = idx;
		R_caseDesc(fmt("token strings %zu..%zu", idx * PER_CASE, idx * PER_CASE + paths.size() - 1));
	}
	else {
		variant = idx - enumCases;
		Rng rng(mix(g_cfg.seed, 0xC19000 + variant));
		for (size_t k = 0; k < 40; k++) paths.push_back(randomPath(rng, (int)(variant * 40 + k)));
		R_caseDesc(fmt("random paths batch %zu", variant));
	}
	// every batch through the texture-set slot in three versions; the other slot kinds rotate
	for (int vi = 0; vi < 3; vi++) checkBatch(paths, *findVer(VN[vi]), TEXSET);
	const VerInfo& vEff = *findVer(variant % 2 ? "SK" : "FO4");
	std::vector<std::string> sub(paths.begin(), paths.begin() + (long)std::min<size_t>(paths.size(), 40));
	if (variant % 3 == 0) checkBatch(sub, vEff, EFFECT);
	if (variant % 3 == 1) checkBatch(sub, *findVer("OB"), SOURCE);
	if (variant % 9 == 2) checkBatch(sub, *findVer("FO3"), TEXSET);
	if (variant % 3 == 2) checkBatch(sub, *findVer("FO3"), SOURCE);
	if (variant % 9 == 5) checkBatch(sub, *findVer("SSE"), EFFECT);
	if (idx == 3) R_sample(fmt("{\"kind\":\"token strings\",\"example_in\":\"%s\",\"example_model_out_SK\":\"%s\"}", jesc(paths[5]).c_str(), jesc(pathModel(paths[5], false, false)).c_str()));
	if (idx == enumCases) R_sample(fmt("{\"kind\":\"random\",\"example_in_hex\":\"%s\",\"length\":%zu}", hexs(paths[0], 40).c_str(), paths[0].size()));
}

MonReg reg({"C19", "exploration",
			"path strings: exhaustively all sequences of up to 4 (quick) / 5 (thorough) tokens from {\\, /, space, ., a, :, textures, data} plus the empty string, and seeded random byte strings "
			"(drive and UNC prefixes, non-UTF-8 bytes, CR/LF, nested 'textures' folders, lengths up to 4.5 KB). Each batch is stored in the texture-set slots of OB, SK and FO4 models and, "
			"rotating, in the five effect-shader paths (SK/FO4/SSE) and the ten NiTexturingProperty/NiSourceTexture slots (OB); results are read with GetTextureSlot after TrimTexturePaths, "
			"after a second TrimTexturePaths (idempotence; every third model is created in an object that loaded a terrain file before) and after save+Load with and without the terrain option. Oracle: regex-free reference model + independent postconditions "
			"(no surrounding whitespace, no '/', no '\\\\\\\\', textures\\\\ / Data\\\\ prefix, blank->empty). Linux std::filesystem semantics. Non-trivial = path the clean-up changes to a non-empty result.",
			[] { Plan p = plan(); return 1 + (enumCount(p.maxTokens) + PER_CASE - 1) / PER_CASE + p.randomCases; }, run, 4, 300.0, false, false, nullptr});
} // namespace
