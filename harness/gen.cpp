#include "gen.hpp"
#include <malloc.h>
#include <limits>
#include <cxxabi.h>
#include <algorithm>

namespace vf {
using verif::FieldKind;

std::string demangle(const char* n) {
	int st = 0;
	char* d = abi::__cxa_demangle(n, nullptr, nullptr, &st);
	std::string r = d ? d : n;
	free(d);
	return r;
}

static void collectBases(const std::type_info* ti, std::set<std::string>& out) {
	out.insert(demangle(ti->name()));
	if (auto si = dynamic_cast<const __cxxabiv1::__si_class_type_info*>(ti)) collectBases(si->__base_type, out);
	else if (auto vmi = dynamic_cast<const __cxxabiv1::__vmi_class_type_info*>(ti))
		for (unsigned i = 0; i < vmi->__base_count; i++) collectBases(vmi->__base_info[i].__base_type, out);
}

namespace {
struct Reg : NiFactoryRegister { using NiFactoryRegister::m_registrations; };
Reg& reg() { static Reg r; return r; }
} // namespace

std::unique_ptr<NiObject> TypeDB::create(const std::string& name) const {
	auto it = reg().m_registrations.find(name);
	if (it == reg().m_registrations.end()) return nullptr;
	return it->second->Create();
}

const TypeDB& typeDB() {
	static TypeDB db;
	static bool done = false;
	if (done) return db;
	done = true;
	for (auto& kv : reg().m_registrations) db.names.push_back(kv.first);
	std::sort(db.names.begin(), db.names.end());
	for (auto& n : db.names) {
		auto o = reg().m_registrations[n]->Create();
		auto& r = *o;
		collectBases(&typeid(r), db.bases[n]);
		// drop CRTP helper layers, keep real class names
		for (auto& b : db.bases[n]) db.derived[b].push_back(n);
	}
	return db;
}

bool admissible(const std::string& t, const VerInfo& v) {
	uint32_t s = v.stream;
	bool old = v.file < 0x14020007;
	if (old) s = 0;
	auto in = [&](std::initializer_list<const char*> l) {
		for (auto x : l)
			if (t == x) return true;
		return false;
	};
	auto pre = [&](const char* p) { return t.rfind(p, 0) == 0; };
	if (in({"BSTriShape", "BSSubIndexTriShape", "BSMeshLODTriShape"})) return s >= 100 && s <= 155;
	if (t == "BSDynamicTriShape") return s == 100;
	if (t == "BSGeometry" || t == "SkinAttach" || t == "BoneTranslations" || t == "BSWeakReferenceNode") return s >= 172;
	if (in({"NiTriShape", "NiTriShapeData", "NiTriStrips", "NiTriStripsData", "NiLines", "NiLinesData", "NiScreenElements", "NiScreenElementsData", "NiSkinInstance",
			"NiSkinData", "NiSkinPartition"}))
		return s <= 100;
	if (in({"BSLODTriShape", "BSSegmentedTriShape", "BSDismemberSkinInstance"})) return s >= 34 && s <= 100;
	if (in({"BSSkin::Instance", "BSSkin::BoneData", "bhkNPCollisionObject", "bhkPhysicsSystem", "bhkRagdollSystem", "BSClothExtraData", "BSConnectPoint::Parents",
			"BSConnectPoint::Children", "BSPackedCombinedSharedGeomDataExtra", "BSPackedCombinedGeomDataExtra", "BSDistantObjectLargeRefExtraData",
			"BSDistantObjectExtraData", "BSDistantObjectInstancedNode", "BSPositionData", "BSEyeCenterExtraData"}))
		return s >= 130;
	if (t == "BSCollisionQueryProxyExtraData") return s >= 155;
	if (in({"NiShadeProperty", "NiSpecularProperty", "NiTexturingProperty", "NiVertexColorProperty", "NiDitherProperty", "NiFogProperty", "NiWireframeProperty",
			"NiZBufferProperty", "NiMaterialProperty", "NiStencilProperty"}))
		return s <= 34;
	if (in({"WaterShaderProperty", "HairShaderProperty", "DistantLODShaderProperty", "BSDistantTreeShaderProperty", "TallGrassShaderProperty",
			"VolumetricFogShaderProperty", "SkyShaderProperty", "TileShaderProperty", "BSShaderNoLightingProperty", "BSShaderPPLightingProperty", "Lighting30ShaderProperty"}))
		return !old && s <= 34;
	if (in({"BSLightingShaderProperty", "BSEffectShaderProperty", "BSWaterShaderProperty", "BSSkyShaderProperty"}) || pre("BSLightingShaderProperty") || pre("BSEffectShaderProperty"))
		return s >= 83;
	if (pre("bhk") || t == "hkPackedNiTriStripsData") return s <= 100;
	return true;
}

const char* const DICT[] = {"", "a", "Scene Root", "Tangent space (binormal & tangent vectors)", "LOCKEDNORM", "BSX", "NiOptimizeKeep", "textures\\x.dds", "Bone01", "shape", "shape2", "UPB", "a"};
const int NDICT = 12;   // the 13th entry is only used by tests that want a duplicate

// ------------------------------------------------------------------------------------------------ Gen
void Gen::Field(bool reading, FieldKind k, size_t sz, void* addr, const std::type_info* ti) {
	if (!reading) return;
	fieldEvents++;
	// a Count/StrLen/Half/ref announcement is followed by the generic Sync<T> announcement of the same bytes: keep the specific one
	if (hasHint && (kind == FieldKind::Count || kind == FieldKind::StrLen || kind == FieldKind::Half || kind == FieldKind::BlockRef || kind == FieldKind::StringRef)) return;
	hasHint = true;
	kind = k;
	hsize = sz;
	lastAddr = addr;
	lastType = ti;
}

void Gen::BlockRef(bool reading, NiRef* r, const std::type_info* t, std::streamsize) {
	if (!reading) return;
	refEvents++;
	hasHint = true;
	kind = FieldKind::BlockRef;
	hsize = 4;
	std::string n = demangle(t->name());
	if (!n.empty() && n.back() == '*') n.pop_back();
	refTarget = n;
	wanted.insert(n);
	forceEmptyRef = false;
	if (ver && ver->file == 0x14020007 && ver->user >= 12 && ver->stream < 130)
		if (auto bs = dynamic_cast<BSTriShape*>(obj))
			if (r == bs->SkinInstanceRef()) forceEmptyRef = true;
}

static std::string longWord(size_t len) {
	std::string w(len, 'a');
	for (size_t i = 0; i < len; i++) w[i] = (char)('a' + (i * 7 + len) % 26);
	return w;
}

void Gen::StringRef(bool reading, NiStringRef*, std::streamsize) {
	if (!reading) return;
	strEvents++;
	hasHint = true;
	kind = FieldKind::StringRef;
	hsize = 4;
}

float Gen::nicef() {
	static const float v[] = {0.f, 1.f, -1.f, 0.5f, 2.5f, -3.75f, 100.25f, 0.001f, 7.f, 0.25f, 3.4028235e38f};
	return v[rng.below(11)];
}

uint32_t Gen::pickRef() {
	const TypeDB& db = typeDB();
	if (forceEmptyRef) { forceEmptyRef = false; return 0xFFFFFFFFu; }
	if (plan && forcedTarget >= 0 && !forcedDone && (size_t)forcedTarget < plan->size() && db.isA((*plan)[forcedTarget], refTarget)) {
		forcedDone = true;
		return (uint32_t)forcedTarget;
	}
	if (!plan) return 0xFFFFFFFFu;
	if (opt.emptyRefOneIn > 0 && rng.below((uint32_t)opt.emptyRefOneIn) == 0) return 0xFFFFFFFFu;
	std::vector<uint32_t> c;
	uint32_t from = opt.backRefs ? 0 : self + 1;
	for (uint32_t j = from; j < plan->size(); j++) {
		if (!db.isA((*plan)[j], refTarget)) continue;
		if (opt.ownershipTree && taken && taken->count(j)) continue;
		c.push_back(j);
	}
	if (c.empty()) return 0xFFFFFFFFu;
	uint32_t r = c[rng.below((uint32_t)c.size())];
	if (self < plan->size()) {
		// a geometry block usually points at its own kind of data block (NiScreenElements -> NiScreenElementsData, ...): code that
		// down-casts the target only runs for that pairing, so prefer it when the plan holds one
		std::string partner = (*plan)[self] + "Data";
		std::vector<uint32_t> pc;
		for (auto j : c) if ((*plan)[j] == partner) pc.push_back(j);
		if (!pc.empty() && rng.below(3) != 0) r = pc[rng.below((uint32_t)pc.size())];
	}
	if (taken) taken->insert(r);
	return r;
}

static void put(const void* p, size_t n, char*& out) {
	memcpy(out, p, n);
	out += n;
}

void Gen::fill(char* s, size_t n) {
	char* o = s;
	if (!pendingChars.empty() && pendingChars.size() == n) {
		memcpy(s, pendingChars.data(), n);
		pendingChars.clear();
		hasHint = false;
		return;
	}
	pendingChars.clear();
	bool h = hasHint;
	FieldKind k = kind;
	size_t hs = hsize;
	hasHint = false;
	if (h && hs != n) h = false;
	auto count = [&]() -> uint64_t { return (uint64_t)opt.minCount + rng.below((uint32_t)(opt.maxCount - opt.minCount + 1)); };
	if (h) {
		switch (k) {
			case FieldKind::Bool: {
				uint8_t b = opt.boolBias == 1 ? (rng.below(8) != 0) : opt.boolBias == 2 ? (rng.below(8) == 0) : (uint8_t)rng.below(2);
				put(&b, 1, o);
				return;
			}
			case FieldKind::Count: { uint64_t c = count(); put(&c, n, o); return; }
			case FieldKind::StrLen: {
				const char* w = DICT[rng.below(NDICT)];
				uint64_t c = strlen(w);
				pendingChars = w;
				if (rng.below(24) == 0) {
					// texts at the limits of the size field and of the buffers readers commonly use
					static const size_t L1[] = {254, 255}, L2[] = {255, 256, 1024, 1025}, L4[] = {255, 256, 2047, 2048};
					size_t len = n == 1 ? L1[rng.below(2)] : n == 2 ? L2[rng.below(4)] : L4[rng.below(4)];
					pendingChars = longWord(len);
					c = len;
				}
				put(&c, n, o);
				return;
			}
			case FieldKind::Enum: {
				// small values dominate, but sparse enums (e.g. hkConstraintType 0,1,2,6,7,8) need the upper ones as well
				uint64_t c = rng.below(3) ? rng.below(4) : rng.below(10);
				if (lastType && *lastType == typeid(BoundVolumeType)) {
					// sphere, box, capsule, union, half-space equally often (the declared values are 0, 1, 2, 4, 5)
					static const uint32_t V[] = {0, 1, 2, 4, 5};
					c = V[rng.below(5)];
				}
				if (lastType && *lastType == typeid(hkConstraintType)) {
					// every defined sub-constraint layout equally often, plus the occasional undefined value
					static const uint32_t V[] = {0, 1, 2, 6, 7, 8, 3};
					c = V[rng.below(rng.below(8) ? 6 : 7)];
					if (c == 3) {
						// undefined values on both sides of the defined range (no descriptor is read for any of them)
						static const uint32_t U[] = {3, 9, 13, 4, 0x7fffffffu, 5};
						c = U[rng.below(6)];
					}
				}
				put(&c, n, o);
				return;
			}
			case FieldKind::Int: {
				uint64_t c;
				if (auto sp = dynamic_cast<NiSkinPartition*>(obj)) {
					if (lastAddr == &sp->vertexSize) { c = 4 * (1 + rng.below(6)); put(&c, n, o); return; }
				}
				if (auto sits = dynamic_cast<BSSubIndexTriShape*>(obj)) {
					// FO4 segmentation tables must be mutually consistent (sub-segment records are indexed by running count):
					// total = segments + sum of sub-segment counts  (reader precondition of GetSegmentation, DESIGN 5)
					struct Peek : BSSubIndexTriShape { using BSSubIndexTriShape::segmentation; };
					auto& sg = sits->*(&Peek::segmentation);
					if (lastAddr == &sg.numSegments) { c = count(); sitsSegs = (uint32_t)c; put(&c, n, o); return; }
					if (lastAddr == &sg.numTotalSegments) { sitsSubsLeft = sitsSegs ? rng.below(4) : 0; c = sitsSegs + sitsSubsLeft; put(&c, n, o); return; }
					for (size_t i = 0; i < sg.segments.size(); i++)
						if (lastAddr == &sg.segments[i].numSubSegments) {
							c = (i + 1 == sg.segments.size()) ? sitsSubsLeft : rng.below(sitsSubsLeft + 1);
							sitsSubsLeft -= (uint32_t)c;
							put(&c, n, o);
							return;
						}
				}
				if (n == 1 && blockName == "BSGeometry") {
					// mesh-present bytes must be prefix-contiguous (reader precondition, see DESIGN 5)
					uint8_t b = sticky0 ? 0 : (rng.below(3) != 0);
					if (!b) sticky0 = true;
					put(&b, 1, o);
					return;
				}
				if (n == 8) {
					// vertex descriptor shaped value: flags << 44 | vertex dword sizes, low bits canonical
					uint64_t fl = 0x1;
					static const uint16_t F[] = {0x1, 0x2, 0x8, 0x10, 0x20, 0x40, 0x100, 0x400};
					for (int i = 1; i < 8; i++)
						if (rng.below(2)) fl |= F[i];
					if (!(fl & 0x8)) fl &= ~0x10ull;
					bool sse = ver && ver->file == 0x14020007 && ver->stream == 100;
					// shape rules (DESIGN 1.3): extra floats only in full-precision layouts; no skinned BSTriShape in synthesised SSE
					// files (its vertex data lives in a linked NiSkinPartition: covered by S-real / S-api instead)
					if (ver && ver->user >= 12 && ver->stream < 130 && dynamic_cast<BSTriShape*>(obj)) fl &= ~0x40ull;   // writer keeps such shapes' data in the partition
					if (rng.below(3) == 0) fl |= 0x400;
					uint64_t extras = (fl & 0x2) && ((fl & 0x400) || sse) && rng.below(4) == 0 ? rng.below(3) : 0;
					c = (fl << 44) | ((uint64_t)(4 + extras) << 8);
				}
				else if (n == 1) c = rng.below(4) == 0 ? rng.below(256) : rng.below(4);
				else c = count();
				put(&c, n, o);
				return;
			}
			case FieldKind::Float: {
				if (n == 4) {
					float f = nicef();
					// scalar members of the block object itself (not elements of its arrays) occasionally hold a floating point special:
					// such fields gate optional sections in a few block types (e.g. a value equal to FLT_MAX announces a further field)
					if (obj && lastAddr && rng.below(12) == 0) {
						const char* o0 = reinterpret_cast<const char*>(dynamic_cast<void*>(obj));
						const char* a = reinterpret_cast<const char*>(lastAddr);
						size_t osz = malloc_usable_size(const_cast<char*>(o0));
						if (a >= o0 && a < o0 + osz) {
							static const float SPECIAL[] = {std::numeric_limits<float>::infinity(), -std::numeric_limits<float>::infinity(), 3.4028235e38f, -3.4028235e38f, 1.17549435e-38f, -0.0f};
							f = SPECIAL[rng.below(6)];
						}
					}
					put(&f, 4, o);
				}
				else { double d = nicef(); put(&d, 8, o); }
				return;
			}
			case FieldKind::Half: {
				float f = nicef();
				if (f > 1e30f) f = 1.5f;
				half_float::half hh(f);
				put(&hh, 2, o);
				return;
			}
			case FieldKind::BlockRef: { uint32_t r = pickRef(); put(&r, 4, o); return; }
			case FieldKind::StringRef: {
				if (inlineStrings) {
					const char* w = DICT[rng.below(NDICT)];
					uint32_t c = (uint32_t)strlen(w);
					pendingChars = w;
					if (rng.below(24) == 0) {
						// inline strings around common buffer sizes and, where asked for, at the longest length the reader takes in one piece (2048)
						static const size_t LIM[] = {2048, 2047, 2046, 255, 256, 1024}, MID[] = {1000, 1023, 1024, 255, 256, 257};
						size_t len = opt.readerLimitStrings ? LIM[rng.below(6)] : MID[rng.below(6)];
						pendingChars = longWord(len);
						c = (uint32_t)len;
					}
					put(&c, 4, o);
				}
				else {
					uint32_t r = rng.below(5) == 0 ? 0xFFFFFFFFu : rng.below(nStrings ? nStrings : 1);
					put(&r, 4, o);
				}
				return;
			}
			case FieldKind::Struct: {
				if (n % 4 == 0 && n >= 8) {
					for (size_t i = 0; i < n / 4; i++) {
						float f = nicef();
						if (f > 1e30f) f = 2.f;
						put(&f, 4, o);
					}
					return;
				}
				break;
			}
		}
	}
	if (n <= 4) { uint32_t c = (uint32_t)count(); put(&c, n, o); return; }
	for (size_t i = 0; i < n; i += 2) {
		uint16_t v = (uint16_t)rng.below(4);
		size_t m = std::min<size_t>(2, n - i);
		put(&v, m, o);
	}
}

std::streamsize Gen::xsgetn(char* s, std::streamsize n) {
	if (n <= 0) return 0;
	if (rec.size() + (size_t)n > limit) { overflow = true; memset(s, 0, (size_t)n); return n; }
	if (havePeek) {   // a peeked character is the first byte of this read
		havePeek = false;
		s[0] = cbuf;
		rec.push_back(cbuf);
		if (n > 1) { fill(s + 1, (size_t)n - 1); rec.append(s + 1, (size_t)n - 1); }
		return n;
	}
	fill(s, (size_t)n);
	rec.append(s, (size_t)n);
	return n;
}

Gen::int_type Gen::underflow() {
	// peeking must be stable: std::getline peeks (sgetc) and then consumes (sbumpc) the same character
	if (!havePeek) {
		uint32_t r = rng.below(4);
		cbuf = r == 0 ? 0 : (char)('a' + rng.below(3));
		if (rec.size() + 1 > limit) { overflow = true; cbuf = 0; }
		havePeek = true;
	}
	return traits_type::to_int_type(cbuf);
}
Gen::int_type Gen::uflow() {
	int_type c = underflow();
	havePeek = false;
	rec.push_back(cbuf);
	return c;
}

// ------------------------------------------------------------------------------------------------
static void initHeader(NiHeader& hdr, const VerInfo& v, std::vector<std::unique_ptr<NiObject>>& blocks) {
	hdr.SetVersion(toNiVersion(v));
	hdr.SetBlockReference(&blocks);
	for (int i = 0; i < NDICT; i++) hdr.AddOrFindStringId(DICT[i], true);
}

struct BlockGenResult { std::string payload; bool overflow = false; bool forcedDone = false; std::set<std::string> wanted; long f = 0, r = 0, s = 0; };

static BlockGenResult genBlock(const VerInfo& v, const std::string& name, uint64_t seed, const GenOpts& opt, const std::vector<std::string>* plan, uint32_t self,
							   std::set<uint32_t>* taken, long forcedTarget) {
	BlockGenResult res;
	Gen g;
	g.rng = Rng(seed);
	g.opt = opt;
	g.ver = &v;
	g.plan = plan;
	g.self = self;
	g.taken = taken;
	g.forcedTarget = forcedTarget;
	g.blockName = name;
	g.inlineStrings = v.file < 0x14010003;
	g.nStrings = (uint32_t)NDICT;
	NiHeader hdr;
	std::vector<std::unique_ptr<NiObject>> blocks;
	initHeader(hdr, v, blocks);
	std::istream is(&g);
	NiIStream nis(&is, &hdr);
	auto obj = typeDB().create(name);
	g.obj = obj.get();
	{
		HookScope hs(&g);
		obj->Get(nis);
	}
	res.payload = g.rec;
	res.overflow = g.overflow;
	res.forcedDone = g.forcedDone;
	res.wanted = g.wanted;
	res.f = g.fieldEvents; res.r = g.refEvents; res.s = g.strEvents;
	return res;
}

std::unique_ptr<NiObject> synthBlock(const VerInfo& v, const std::string& name, uint64_t seed, const GenOpts& opt, NiHeader& hdr, std::string* payload,
									 std::set<std::string>* wanted, long* events) {
	Gen g;
	g.rng = Rng(seed);
	g.opt = opt;
	g.ver = &v;
	g.blockName = name;
	g.inlineStrings = v.file < 0x14010003;
	g.nStrings = hdr.GetStringCount();
	std::istream is(&g);
	NiIStream nis(&is, &hdr);
	auto obj = typeDB().create(name);
	if (!obj) return nullptr;
	g.obj = obj.get();
	{
		HookScope hs(&g);
		obj->Get(nis);
	}
	if (payload) *payload = g.rec;
	if (wanted) *wanted = g.wanted;
	if (events) *events = g.fieldEvents + g.refEvents + g.strEvents;
	if (g.overflow) return nullptr;
	return obj;
}

// wants[version][block type] = classes of reference targets the reader asks for (union over a few populated dry runs)
static const std::map<std::string, std::set<std::string>>& wantsTable(const VerInfo& v) {
	static std::map<std::string, std::map<std::string, std::set<std::string>>> cache;
	auto it = cache.find(v.n);
	if (it != cache.end()) return it->second;
	auto& tab = cache[v.n];
	GenOpts o;
	o.minCount = 1;
	o.maxCount = 2;
	for (auto& n : typeDB().names) {
		for (int k = 0; k < 4; k++) {
			o.boolBias = k < 2 ? 1 : 0;
			auto r = genBlock(v, n, mix(0x57A27, hashStr(n) + (uint64_t)k), o, nullptr, 0, nullptr, -1);
			tab[n].insert(r.wanted.begin(), r.wanted.end());
		}
	}
	return tab;
}

// holder chain root(NiNode) -> ... -> focus ; returns holders from the root downward (excluding root and focus)
static bool holderChain(const VerInfo& v, const std::string& focus, std::vector<std::string>& chain) {
	static std::map<std::string, std::map<std::string, std::string>> parentCache;   // version -> type -> holder
	const TypeDB& db = typeDB();
	auto& parent = parentCache[v.n];
	if (parent.empty()) {
		auto& wants = wantsTable(v);
		std::vector<std::string> frontier{"NiNode"};
		parent["NiNode"] = "";
		for (int depth = 0; depth < 5 && !frontier.empty(); depth++) {
			std::vector<std::string> next;
			for (auto& h : frontier) {
				auto wit = wants.find(h);
				if (wit == wants.end()) continue;
				for (auto& cls : wit->second) {
					auto dit = db.derived.find(cls);
					if (dit == db.derived.end()) continue;
					for (auto& t : dit->second) {
						if (parent.count(t)) continue;
						parent[t] = h;
						if (admissible(t, v)) next.push_back(t);   // only admissible types serve as intermediate holders
					}
				}
			}
			frontier = next;
		}
	}
	chain.clear();
	auto it = parent.find(focus);
	if (it == parent.end()) return false;
	std::string cur = it->second;
	while (!cur.empty() && cur != "NiNode") {
		chain.insert(chain.begin(), cur);
		cur = parent[cur];
		if (chain.size() > 6) return false;
	}
	return true;
}

SynthFile synthFile(const VerInfo& v, const std::string& focus, uint64_t seed, const SynthOpts& opt) {
	SynthFile S;
	const TypeDB& db = typeDB();
	Rng rng(mix(seed, 0xF11E));
	std::vector<std::string> plan{"NiNode"};
	std::vector<long> forced;   // forced[i] = plan index block i must reference, or -1
	std::vector<std::string> chain;
	bool anchored = opt.anchorFocus && focus != "NiNode" && holderChain(v, focus, chain);
	if (anchored)
		for (auto& h : chain) plan.push_back(h);
	S.focusIndex = (uint32_t)plan.size();
	if (focus == "NiNode" && false) S.focusIndex = 0;
	plan.push_back(focus);
	forced.assign(plan.size(), -1);
	if (anchored)
		for (size_t i = 0; i + 1 < plan.size(); i++) forced[i] = (long)i + 1;
	size_t fixedPrefix = plan.size();

	auto addCompat = [&](const std::set<std::string>& wanted) {
		for (auto& w : wanted) {
			auto it = db.derived.find(w);
			if (it == db.derived.end()) continue;
			std::vector<std::string> c;
			for (auto& x : it->second)
				if (admissible(x, v)) c.push_back(x);
			if (c.empty()) continue;
			int k = 1 + (int)rng.below(2);
			for (int i = 0; i < k && (int)plan.size() < opt.maxBlocks; i++) plan.push_back(c[rng.below((uint32_t)c.size())]);
		}
	};
	// dry runs to learn which companions the focus and the holders ask for
	for (size_t i = 0; i < fixedPrefix; i++) {
		auto r = genBlock(v, plan[i], rng.next(), opt.gen, nullptr, (uint32_t)i, nullptr, -1);
		addCompat(r.wanted);
	}
	for (size_t i = 0; i < fixedPrefix; i++) {
		std::string partner = plan[i] + "Data";
		if (std::find(db.names.begin(), db.names.end(), partner) != db.names.end() && admissible(partner, v) && (int)plan.size() < opt.maxBlocks) plan.push_back(partner);
	}
	size_t lvl1 = plan.size();
	for (size_t i = fixedPrefix; i < lvl1 && (int)plan.size() < opt.maxBlocks; i++) {
		auto r = genBlock(v, plan[i], rng.next(), opt.gen, nullptr, (uint32_t)i, nullptr, -1);
		addCompat(r.wanted);
	}
	for (int i = 0; i < opt.extraBlocks && (int)plan.size() < opt.maxBlocks + 2; i++)
		if (rng.below(2)) {
			auto& x = db.names[rng.below((uint32_t)db.names.size())];
			if (admissible(x, v)) plan.push_back(x);
		}
	for (size_t i = plan.size() - 1; i > fixedPrefix; i--) {
		size_t j = fixedPrefix + rng.below((uint32_t)(i - fixedPrefix + 1));
		std::swap(plan[i], plan[j]);
	}
	forced.resize(plan.size(), -1);

	std::set<uint32_t> taken;
	if (anchored)
		for (size_t i = 1; i < fixedPrefix; i++) taken.insert((uint32_t)i);
	S.focusAnchored = anchored;
	for (size_t i = 0; i < plan.size(); i++) {
		BlockGenResult best;
		bool have = false;
		for (int attempt = 0; attempt < 12; attempt++) {
			std::set<uint32_t> takenTry = taken;
			GenOpts go = opt.gen;
			if (forced[i] >= 0 && attempt >= 2) { go.minCount = std::max(go.minCount, 1); go.boolBias = 1; go.maxCount = std::max(go.maxCount, 1); }
			auto r = genBlock(v, plan[i], mix(rng.next(), (uint64_t)attempt), go, &plan, (uint32_t)i, &takenTry, forced[i]);
			if (r.overflow) { if (!have) { best = r; } continue; }
			if (forced[i] >= 0 && !r.forcedDone) { if (!have) { best = r; have = true; } continue; }
			best = r;
			have = true;
			taken = takenTry;
			if (forced[i] >= 0) forced[i] = -2;   // satisfied
			break;
		}
		if (best.overflow) { S.ok = false; S.why = "overflow " + plan[i]; }
		if (forced[i] >= 0) S.focusAnchored = false;
		S.payloads.push_back(best.payload);
		S.fieldEvents += best.f; S.refEvents += best.r; S.strEvents += best.s;
	}
	S.types = plan;
	S.strings.assign(DICT, DICT + NDICT);
	S.bytes = indep::assemble(v.file, v.user, v.stream, plan, S.payloads, S.strings);
	return S;
}

std::string defaultPayload(const VerInfo& v, const std::string& name) {
	NiHeader hdr;
	std::vector<std::unique_ptr<NiObject>> blocks;
	initHeader(hdr, v, blocks);
	auto obj = typeDB().create(name);
	if (!obj) return {};
	std::ostringstream os(std::ios::binary);
	NiOStream nos(&os, &hdr);
	obj->Put(nos);
	return os.str();
}

} // namespace vf
