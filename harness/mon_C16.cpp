// C16 — truncated files never crash the loader (fault enumeration over crash points of a writer).
#include "faultpipe.hpp"
#include "sources.hpp"

namespace {
using namespace vf;

struct Entry { std::string name; std::string bytes; std::vector<size_t> points; };
std::vector<Entry> g_files;
std::vector<std::pair<size_t, size_t>> g_cases;   // (file, first point index)
const size_t CHUNK = 40;

struct Plan { size_t smallLimit; size_t smallStride; size_t largeBudget; int synVersionsPerType; size_t synBudget; int apiModels; size_t apiBudget; };
Plan plan() { return g_cfg.tier ? Plan{16384, 1, 3000, 14, 48, 36, 400} : Plan{16384, 13, 90, 1, 20, 6, 100}; }

// positions where the reader starts a block / a typed field when the *whole* file is loaded
struct PosTrace : verif::SyncHooks {
	std::istream* is = nullptr;
	std::vector<size_t> blockStarts, fieldStarts;
	std::vector<size_t> insideLeadingFields;   // cut points strictly inside the first multi-byte fields of every block (counts, flags, references)
	int fieldsInBlock = 0;
	size_t pos() { is->clear(is->rdstate() & ~std::ios::eofbit); auto p = is->tellg(); return p < 0 ? (size_t)-1 : (size_t)p; }
	void Block(bool reading, uint32_t, NiObject*) override { if (reading) { blockStarts.push_back(pos()); fieldsInBlock = 0; } }
	void Field(bool reading, verif::FieldKind, size_t sz, void*, const std::type_info*) override {
		if (!reading) return;
		size_t p = pos();
		if (fieldStarts.size() < 400000) fieldStarts.push_back(p);
		if (p != (size_t)-1 && (sz == 2 || sz == 4) && fieldsInBlock < 14 && blockStarts.size() <= 60) {
			fieldsInBlock++;
			insideLeadingFields.push_back(p + 1);
			if (sz == 4) insideLeadingFields.push_back(p + 3);
		}
	}
};

std::vector<size_t> truncPoints(const std::string& bytes, const Plan& p, size_t budget, uint64_t seed, size_t structuralCap = 0) {
	std::set<size_t> pts;
	size_t n = bytes.size();
	if (n <= p.smallLimit && budget >= n / p.smallStride) {
		for (size_t i = 0; i < n; i += p.smallStride) pts.insert(i);
	}
	PosTrace tr;
	{
		std::istringstream is(bytes, std::ios::binary);
		tr.is = &is;
		NifFile f;
		HookScope hs(&tr);
		f.Load(is);
	}
	auto add = [&](size_t x) { if (x < n) pts.insert(x); };
	indep::Header h = indep::parse(bytes);
	if (h.ok) { add(h.headerEnd); add(h.headerEnd - 1); add(h.headerEnd + 1); add(h.sizeTablePos); add(h.stringTablePos); add(h.typeIndexPos); }
	for (auto b : tr.blockStarts) { if (b == (size_t)-1) continue; add(b); add(b + 1); if (b) add(b - 1); add(b + 4); }
	add(n - 1); add(n - 4); add(n - 8); add(n - 9); add(0); add(1); add(40);
	// field boundaries: seeded sample within the budget
	Rng rng(seed);
	std::vector<size_t> fs;
	for (auto f : tr.fieldStarts) if (f != (size_t)-1 && f < n) fs.push_back(f);
	size_t want = budget > pts.size() ? (budget - pts.size()) : 0;
	for (size_t k = 0; k < want * 2 / 3 && !fs.empty(); k++) { size_t f = fs[rng.below((uint32_t)fs.size())]; add(f); if (rng.coin()) add(f + 1 + rng.below(3)); }
	want = budget > pts.size() ? (budget - pts.size()) : 0;
	for (size_t k = 0; k < want; k++) add((size_t)(((double)k + 0.5) / (double)want * (double)n));
	std::vector<size_t> all(pts.begin(), pts.end());
	if (all.size() > budget + budget / 2) {   // many-block files: thin out evenly, deterministic
		std::vector<size_t> thin;
		size_t want2 = budget + budget / 2;
		for (size_t k = 0; k < want2; k++) thin.push_back(all[(size_t)((double)k / (double)want2 * (double)all.size())]);
		thin.push_back(all.back());
		all.assign(thin.begin(), thin.end());
		all.erase(std::unique(all.begin(), all.end()), all.end());
	}
	// a cut inside a count / flag / reference field leaves its low bytes from the file and its high bytes from the default value: the
	// leading multi-byte fields of every block decide the layout of what follows.  On top of the budget: real files up to
	// `structuralCap` of them (evenly thinned), other files a seeded sixth
	if (structuralCap) {
		std::vector<size_t> st;
		for (auto x : tr.insideLeadingFields) if (x < n) st.push_back(x);
		std::sort(st.begin(), st.end());
		st.erase(std::unique(st.begin(), st.end()), st.end());
		std::set<size_t> u(all.begin(), all.end());
		if (st.size() <= structuralCap) u.insert(st.begin(), st.end());
		else for (size_t k = 0; k < structuralCap; k++) u.insert(st[(size_t)(((double)k + rng.unit()) / (double)structuralCap * (double)st.size()) % st.size()]);
		all.assign(u.begin(), u.end());
	}
	return all;
}

void initMeshes();
void init() {
	Plan p = plan();
	for (auto& s : realSamples()) g_files.push_back({"real:" + s.name, s.bytes, {}});
	const TypeDB& db = typeDB();
	for (size_t ti = 0; ti < db.names.size(); ti++)
		for (int k = 0; k < p.synVersionsPerType; k++) {
			size_t vi = (ti + (size_t)k * 5 + (size_t)g_cfg.seed) % (size_t)NVERS;
			if (p.synVersionsPerType == NVERS) vi = (size_t)k;
			SynthOpts so;
			so.gen.maxCount = 1 + (int)((ti + (size_t)k) % 3);
			uint64_t seed = mix(mix(g_cfg.seed ^ 0xC16, hashStr(db.names[ti])), vi);
			SynthFile S = synthFile(VERS[vi], db.names[ti], seed, so);
			if (!S.ok) continue;
			NifFile probe;
			if (loadNif(probe, S.bytes) != 0) continue;
			g_files.push_back({fmt("syn:%s:%s:seed=%llu", VERS[vi].n, db.names[ti].c_str(), (unsigned long long)seed), S.bytes, {}});
		}
	for (int i = 0; i < p.apiModels; i++) {
		ApiOpts ao;
		ao.segments = true;
		ao.partitions = i % 2 == 0;
		ao.skinned = i % 3 != 2;
		ao.nv = 6 + i % 7;
		ao.nt = 8;
		ApiModel m = buildApiModel(mix(g_cfg.seed, 0xC16A00 + (uint64_t)i), i, &ao);
		if (m.ok) g_files.push_back({"api:" + m.desc, m.bytes, {}});
	}
	for (size_t fi = 0; fi < g_files.size(); fi++) {
		auto& e = g_files[fi];
		bool real = e.name[0] == 'r', api = e.name[0] == 'a';
		size_t budget = real ? (e.bytes.size() <= p.smallLimit ? e.bytes.size() / p.smallStride + 96 : p.largeBudget) : api ? p.apiBudget : p.synBudget;
		e.points = truncPoints(e.bytes, p, budget, mix(g_cfg.seed, fi), real ? (g_cfg.tier ? 4000 : 260) : api ? 60 : 12);
		for (size_t k = 0; k < e.points.size(); k += CHUNK) g_cases.push_back({fi, k});
	}
	initMeshes();
}

// ---- external mesh files (Starfield): the separate loader NifFile::LoadExternalShapeData reads them into a mesh slot of a BSGeometry
struct MeshFile { std::string name; std::string bytes; bool skinned; };
std::vector<MeshFile> g_meshes;
std::string g_sfModel;                                              // a real sample with BSGeometry shapes
std::vector<std::array<size_t, 3>> g_meshCases;                     // (mesh file, history, first prefix length)

std::string buildMesh(Rng& rng, bool skinned) {
	std::string o;
	auto u32 = [&](uint32_t v) { o.append((const char*)&v, 4); };
	auto u16 = [&](uint16_t v) { o.append((const char*)&v, 2); };
	auto f32 = [&](float v) { o.append((const char*)&v, 4); };
	uint32_t nv = 3 + rng.below(6), nt = 1 + rng.below(4);
	u32(1 + rng.below(2));
	u32(nt * 3);
	for (uint32_t t = 0; t < nt * 3; t++) u16((uint16_t)rng.below(nv));
	f32(rng.range(0.5f, 4.0f));
	uint32_t wpv = skinned ? (rng.coin() ? 4u : 8u) : 0u;
	u32(wpv);
	u32(nv);
	for (uint32_t v = 0; v < nv * 3; v++) u16((uint16_t)rng.below(65536));
	u32(nv);
	for (uint32_t v = 0; v < nv * 2; v++) u16((uint16_t)(0x3800 + rng.below(0x400)));
	uint32_t nuv2 = rng.coin(3) ? nv : 0;
	u32(nuv2);
	for (uint32_t v = 0; v < nuv2 * 2; v++) u16((uint16_t)(0x3800 + rng.below(0x400)));
	uint32_t nc = rng.coin() ? nv : 0;
	u32(nc);
	for (uint32_t v = 0; v < nc; v++) u32(rng.below(0xFFFFFFFFu));
	u32(nv);
	for (uint32_t v = 0; v < nv; v++) u32(rng.below(0xFFFFFFFFu));
	u32(nv);
	for (uint32_t v = 0; v < nv; v++) u32(rng.below(0xFFFFFFFFu));
	u32(nv * wpv);
	for (uint32_t v = 0; v < nv * wpv; v++) { u16((uint16_t)rng.below(4)); u16((uint16_t)rng.below(65536)); }
	uint32_t nl = rng.below(3);
	u32(nl);
	for (uint32_t l = 0; l < nl; l++) { uint32_t k = 1 + rng.below(2); u32(k * 3); for (uint32_t t = 0; t < k * 3; t++) u16((uint16_t)rng.below(nv)); }
	uint32_t nm = rng.below(3);
	u32(nm);
	for (uint32_t m = 0; m < nm; m++) { u32(nv); u32(0); u32(nt); u32(0); }
	uint32_t ncd = rng.below(3);
	u32(ncd);
	for (uint32_t m = 0; m < ncd * 6; m++) f32(rng.range(-5, 5));
	return o;
}

void initMeshes() {
	for (auto& s : realSamples()) {
		NifFile n;
		if (loadNif(n, s.bytes) != 0) continue;
		for (auto sh : n.GetShapes())
			if (auto g = dynamic_cast<BSGeometry*>(sh))
				if (g->MeshCount() > 0 && g_sfModel.empty()) g_sfModel = s.bytes;
	}
	if (g_sfModel.empty()) return;
	int nFiles = g_cfg.tier ? 24 : 4;
	for (int i = 0; i < nFiles; i++) {
		Rng rng(mix(g_cfg.seed, 0xC16E00 + (uint64_t)i));
		bool sk = i % 2 == 0;
		g_meshes.push_back({fmt("mesh:%s:%d", sk ? "skinned" : "unskinned", i), buildMesh(rng, sk), sk});
	}
	for (size_t m = 0; m < g_meshes.size(); m++)
		for (size_t h = 0; h < 3; h++)
			for (size_t first = 0; first <= g_meshes[m].bytes.size(); first += CHUNK) g_meshCases.push_back({m, h, first});
}

// one prefix of a mesh file: history 0 = into the slot as loaded from the NIF, 1 / 2 = over a complete skinned / unskinned mesh loaded before
void meshPrefix(const MeshFile& mf, size_t hist, size_t len) {
	std::string what = fmt("%s truncated to %zu of %zu bytes, loaded %s", mf.name.c_str(), len, mf.bytes.size(), hist == 0 ? "into a fresh mesh slot" : hist == 1 ? "over a complete skinned mesh" : "over a complete unskinned mesh");
	R_caseDesc(what);
	R_eval();
	std::string phase = "load-model";
	try {
		R_phase("load-model");
		auto n = std::make_unique<NifFile>();
		if (loadNif(*n, g_sfModel) != 0) return;
		BSGeometry* g = nullptr;
		for (auto sh : n->GetShapes())
			if (auto x = dynamic_cast<BSGeometry*>(sh))
				if (x->MeshCount() > 0 && !g) g = x;
		if (!g) return;
		if (hist != 0) {
			phase = "load-first-mesh"; R_phase(phase.c_str());
			const MeshFile* first = nullptr;
			for (auto& o : g_meshes) if (o.skinned == (hist == 1) && &o != &mf) { first = &o; break; }
			if (!first) return;
			std::istringstream is(first->bytes, std::ios::binary);
			n->LoadExternalShapeData(g, is, 0);
		}
		phase = "load-mesh-prefix"; R_phase(phase.c_str());
		{
			std::istringstream is(mf.bytes.substr(0, len), std::ios::binary);
			n->LoadExternalShapeData(g, is, 0);
		}
		phase = "query"; R_phase("query");
		g->SelectMesh(0);
		runBattery(*n, true);
		{
			std::vector<Triangle> t;
			g->GetTriangles(t);
			std::vector<Vector3> v;
			n->GetVertsForShape(g, v);
			std::vector<Vector2> uv;
			n->GetUvsForShape(g, uv);
			n->GetNormalsForShape(g);
			g->UpdateBounds();
		}
		g->ReleaseMesh();
		phase = "copy"; R_phase("copy");
		auto cp = std::make_unique<NifFile>(*n);
		phase = "save"; R_phase("save");
		saveNif(*cp, true);
		saveNif(*n, false);
		phase = "destroy"; R_phase("destroy");
		cp.reset();
		n.reset();
		R_stat("mesh_prefixes_loaded");
		if (len == mf.bytes.size()) R_cover(what);
	}
	catch (const std::exception& e) {
		R_viol("exception", phase + "/" + demangle(typeid(e).name()), what + ": escaping exception in phase " + phase + ": " + e.what());
	}
}

void run(size_t idx) {
	if (idx >= g_cases.size()) {
		auto [m, h, first] = g_meshCases[idx - g_cases.size()];
		const MeshFile& mf = g_meshes[m];
		for (size_t len = first; len < first + CHUNK && len <= mf.bytes.size(); len++) meshPrefix(mf, h, len);
		return;
	}
	auto [fi, first] = g_cases[idx];
	const Entry& e = g_files[fi];
	size_t last = std::min(e.points.size(), first + CHUNK);
	for (size_t k = first; k < last; k++) {
		size_t len = e.points[k];
		std::string what = fmt("%s truncated to %zu of %zu bytes", e.name.c_str(), len, e.bytes.size());
		R_caseDesc(what);
		R_eval();
		FaultResult fr = faultPipeline(e.bytes.substr(0, len), what, false, false);
		R_stat(fr.loadRc == 0 ? "prefix_loaded_rc0" : "prefix_rejected");
		if (fr.loadRc == 0) R_cover(fmt("%zu/%zu", fi, len));
	}
	if (first == 0 && fi % 61 == 0) R_sample(fmt("{\"file\":\"%s\",\"bytes\":%zu,\"truncation_points\":%zu,\"first_points\":[%zu,%zu,%zu]}", jesc(e.name).c_str(), e.bytes.size(), e.points.size(),
													e.points.size() > 0 ? e.points[0] : 0, e.points.size() > 1 ? e.points[1] : 0, e.points.size() > 2 ? e.points[2] : 0));
}

MonReg reg({"C16", "fault_enumeration",
			"fault = the file ends after k bytes. Files: all real samples (every byte offset, stride 13 in the quick tier, for files <= 16 KB; for larger files every block boundary +-1, "
			"header table boundaries, a seeded sample of typed-field boundaries reported by the read hook and an even stride), one synthesised file per block type (x14 versions thorough), "
			"API-built skinned/segmented models; plus every prefix of small generated Starfield mesh files (skinned and unskinned) read by LoadExternalShapeData into a mesh slot of a real BSGeometry shape, as loaded from the NIF and over a complete skinned / unskinned mesh loaded before. Per fault, in a fork-isolated CPU-limited child: Load(prefix) -> ~60-query battery -> copy -> raw save -> default save -> reload -> destroy. "
			"Oracle: no sanitizer/assertion abort, signal, escaping exception or CPU-limit hang in any phase (Load may return non-zero). Non-trivial = prefix that Load accepts with rc 0.",
			[] { return g_cases.size() + g_meshCases.size(); }, run, 4, 60.0, true, false, init});
} // namespace
