// C07 — saved header tables describe the written file exactly.
// Every file written here is judged by the independent header/footer walker together with the
// hook trace of the writing save (block boundaries, string-index field offsets) and the byte
// counts the library's own reader consumes when the output is loaded again.
#include "oracles.hpp"
#include "sources.hpp"

namespace {
using namespace vf;

struct Plan { int synSeeds; int mutPerSample; int apiModels; int editRounds; };
Plan plan() { return g_cfg.tier ? Plan{8, 4, 400, 3} : Plan{1, 1, 96, 2}; }
struct Layout { size_t nReal, nMut, nSyn, nApi, nUnk; size_t total() const { return nReal + nMut + nSyn + nApi + nUnk; } };
Layout layout() {
	Plan p = plan();
	Layout l;
	l.nReal = realSamples().size();
	l.nMut = l.nReal * (size_t)p.mutPerSample;
	l.nSyn = typeDB().names.size() * nAllVers() * (size_t)p.synSeeds;
	l.nApi = (size_t)p.apiModels;
	l.nUnk = realSamples().size() * (g_cfg.tier ? 6 : 1);
	return l;
}

// saves the model with both option sets (on copies for the first, then on the object itself) and checks every output
void checkSaves(NifFile& n, const std::string& source, const std::string& stage) {
	std::string vclass = verClass(n.GetHeader().GetVersion());
	for (int mode = 0; mode < 2; mode++) {
		bool raw = mode == 0;
		NifFile cp(n);
		R_phase(raw ? "save:raw" : "save:default");
		SaveTrace tr;
		std::string out = saveTraced(cp, raw, tr);
		R_eval();
		R_stat("files_checked");
		R_stat("blocks_checked", (long)tr.blocks.size());
		std::string site;
		long strs = 0;
		std::string err = c07Check(out, tr, cp.HasUnknown(), site, &strs);
		R_stat("string_index_fields_checked", strs);
		if (!err.empty()) { R_viol("header-tables", vclass + "/" + site, source + " [" + stage + (raw ? ",raw" : ",default") + "]: " + err); continue; }
		R_phase("reload");
		err = c07ReloadCheck(out, site);
		if (!err.empty()) { R_viol("reader-consumption", vclass + "/" + site, source + " [" + stage + (raw ? ",raw" : ",default") + "]: " + err); continue; }
		if (tr.blocks.size() > 1) R_cover(fmt("%s/%s/%d/%016llx", source.c_str(), stage.c_str(), mode, (unsigned long long)hashStr(out)));
		uint64_t h = hashStr(out);
		if (h % 3 == 0) {
			// the same model written into a stream that already holds data (container member, second model appended): the file is
			// the bytes from the start position on; they are what a fresh stream receives, and what came before is untouched
			R_phase("save:after-preamble");
			static const size_t PRE[] = {1, 7, 64, 1000, 4096, 70000};
			std::string pre = (h / 3) % 7 == 6 ? out : std::string(PRE[(h / 3) % 7 % 6], '\x5A');
			NifFile cp2(n);
			std::string whole = saveNifAfter(cp2, raw, pre);
			R_eval();
			R_stat("files_written_after_a_preamble");
			if (whole.size() < pre.size() || whole.compare(0, pre.size(), pre) != 0)
				R_viol("stream-position", vclass + "/preamble-changed", source + " [" + stage + (raw ? ",raw" : ",default") + fmt("]: saving into a stream at position %zu changes the %zu bytes that were already there", pre.size(), pre.size()));
			else if (whole.compare(pre.size(), std::string::npos, out) != 0) {
				std::string part = whole.substr(pre.size());
				size_t at = 0;
				while (at < part.size() && at < out.size() && part[at] == out[at]) at++;
				R_viol("stream-position", vclass + "/differs-from-fresh-stream", source + " [" + stage + (raw ? ",raw" : ",default") + fmt("]: the file written at stream position %zu (%zu bytes) differs from the one written into a fresh stream (%zu bytes), first at file offset %zu", pre.size(), part.size(), out.size(), at));
			}
		}
	}
}

// header strings set through the API: creator and export info are stored as short strings (one length byte that counts the
// terminating NUL); lengths around the representable maximum and around the 254-character export chunks
std::string headerInfoEdit(NifFile& n, Rng& rng) {
	static const size_t LEN[] = {0, 1, 40, 253, 254, 255, 256, 257, 300, 507, 508, 509, 510, 511, 512, 600, 761, 762, 763, 900};
	auto text = [&](size_t len) { std::string t; for (size_t i = 0; i < len; i++) t += (char)('a' + (i * 7 + len) % 26); return t; };
	std::string log;
	auto& hdr = n.GetHeader();
	if (rng.coin()) { size_t l = LEN[rng.below(20)]; hdr.SetExportInfo(text(l)); log += fmt("SetExportInfo(%zu chars);", l); }
	if (rng.coin(3)) { size_t l = LEN[rng.below(20)]; hdr.SetCreatorInfo(text(l)); log += fmt("SetCreatorInfo(%zu chars);", l); }
	return log;
}

void run(size_t idx) {
	Layout l = layout();
	Plan p = plan();
	if (idx < l.nReal + l.nMut) {
		bool mut = idx >= l.nReal;
		const Sample& s = realSamples()[mut ? (idx - l.nReal) / (size_t)p.mutPerSample : idx];
		std::string src = (mut ? "mut:" : "real:") + s.name;
		R_caseDesc(src);
		std::string bytes = s.bytes;
		uint64_t seed = mix(g_cfg.seed, 0xC07000 + idx);
		if (mut) { bytes = mutateFloats(s.bytes, seed); if (bytes.empty()) { R_stat("mutator_rejected"); return; } }
		NifFile n;
		Rng rng(seed);
		if (idx % 2) { src += " {object " + useObject(n, rng) + "}"; R_caseDesc(src); }   // every second case: the object has held another model before
		if (loadNif(n, bytes) != 0) { R_stat("input_not_accepted"); return; }
		checkSaves(n, src, "loaded");
		for (int r = 0; r < p.editRounds; r++) {
			R_phase("edit");
			std::string log = applyRandomEdits(n, rng, 3) + headerInfoEdit(n, rng);
			R_caseDesc(src + " edits: " + log);
			checkSaves(n, src, "edited" + std::to_string(r));
		}
		if (idx == 2) R_sample(fmt("{\"source\":\"real+edits\",\"file\":\"%s\",\"edit_rounds\":%d}", s.name.c_str(), p.editRounds));
		return;
	}
	idx -= l.nReal + l.nMut;
	if (idx < l.nSyn) {
		const TypeDB& db = typeDB();
		size_t per = db.names.size() * nAllVers();
		size_t it = idx / per, rest = idx % per;
		const VerInfo& v = verAt(rest / db.names.size());
		const std::string& name = db.names[rest % db.names.size()];
		uint64_t seed = mix(mix(g_cfg.seed ^ 0xC07, hashStr(name)), (rest / db.names.size()) * 1000 + it);
		SynthOpts so;
		so.gen.maxCount = 1 + (int)((it + rest) % 4);
		so.gen.boolBias = (int)((it + rest) % 3);
		std::string d = fmt("syn:%s:%s:it=%zu:seed=%llu", v.n, name.c_str(), it, (unsigned long long)seed);
		R_caseDesc(d);
		SynthFile S = synthFile(v, name, seed, so);
		if (!S.ok) { R_stat("generator_overflow"); return; }
		NifFile n;
		if (rest % 3 == 1) { Rng hr(seed ^ 0x0B7); d += " {object " + useObject(n, hr) + "}"; R_caseDesc(d); }
		if (loadNif(n, S.bytes) != 0) { R_stat("input_not_accepted"); return; }
		checkSaves(n, d, "loaded");
		// second generation: what the library wrote, loaded and written again
		NifFile n2;
		std::string first = saveNif(n, false);
		if (loadNif(n2, first) == 0) checkSaves(n2, d, "second-generation");
		else R_viol("reader-consumption", verClass(n.GetHeader().GetVersion()) + "/reload-fails", d + ": default-saved output does not load");
		if (rest % 1999 == 0 && it == 0) R_sample(fmt("{\"source\":\"syn\",\"version\":\"%s\",\"focus\":\"%s\",\"blocks\":%zu}", v.n, name.c_str(), S.types.size()));
		return;
	}
	idx -= l.nSyn;
	if (idx >= l.nApi) {
		// files with an unknown block type keep the loaded string table (only appended to): header strings edited in place through
		// NiHeader::SetStringById, the longest one shortened / another one lengthened, then written
		size_t k = idx - l.nApi;
		Rng rng(mix(g_cfg.seed, 0xC07D000 + k));
		std::string d;
		std::string b = sampleWithUnknownType(rng, &d);
		NifFile n;
		if (b.empty() || loadNif(n, b) != 0) return;
		auto& hdr = n.GetHeader();
		uint32_t ns = hdr.GetStringCount();
		if (ns == 0) return;
		std::string src = "unknown-type file: " + d;
		uint32_t longest = 0;
		for (uint32_t i = 0; i < ns; i++) if (hdr.GetStringById(i).size() > hdr.GetStringById(longest).size()) longest = i;
		std::string edits;
		switch (k % 3) {
			case 0: hdr.SetStringById(longest, hdr.GetStringById(longest).substr(0, 1)); edits = fmt("SetStringById(longest=%u, 1 char)", longest); break;
			case 1: { uint32_t i = rng.below(ns); hdr.SetStringById(i, hdr.GetStringById(i) + std::string(40 + rng.below(60), 'x')); edits = fmt("SetStringById(%u, +many chars)", i); break; }
			default: hdr.SetStringById(longest, ""); edits = fmt("SetStringById(longest=%u, empty)", longest); break;
		}
		R_caseDesc(src + " " + edits);
		checkSaves(n, src + " " + edits, "string-edited");
		checkSaves(n, src + " " + edits, "string-edited-second-save");
		return;
	}
	{
		uint64_t seed = mix(g_cfg.seed, 0xC07B000 + idx);
		ApiOpts ao;
		ao.segments = (idx % 2) == 0;
		ao.partitions = (idx % 3) == 0;
		ao.usedObject = (idx % 2) == 1;   // Create() on an object that has held another model
		ApiModel m = buildApiModel(seed, (int)idx, &ao);
		if (!m.ok) { R_stat("api_model_rejected"); return; }
		std::string src = "api:" + m.desc;
		R_caseDesc(src);
		// freshly added blocks carry size 0 in the header until the first save
		checkSaves(*m.nif, src, "built");
		Rng rng(seed);
		for (int r = 0; r < p.editRounds; r++) {
			R_phase("edit");
			std::string log = applyRandomEdits(*m.nif, rng, 4) + headerInfoEdit(*m.nif, rng);
			R_caseDesc(src + " edits: " + log);
			checkSaves(*m.nif, src, "edited" + std::to_string(r));
		}
		if (idx == 0) R_sample(fmt("{\"source\":\"api+edits\",\"model\":\"%s\"}", jesc(m.desc).c_str()));
	}
}

MonReg reg({"C07", "exploration",
			"every file written by the workload (real and float-mutated samples as loaded and after rounds of random public-API edits; one synthesised file per block type x version x seed "
			"as loaded and second generation; API-built models incl. freshly added blocks, before and after edits (edits include SetExportInfo / SetCreatorInfo with lengths around 254..256 and the chunk boundaries); every second model is loaded / created in a NifFile object that has held another model; 36 versions for the synthesised files; raw and default options each) is parsed by an independent header reader: "
			"header end + sum of declared sizes + 8-byte footer {1,0} = file size, type indices in range, block type names match the objects, each declared size equals the bytes the "
			"writer emitted between consecutive Block hook events AND the bytes the library's reader consumes on reload, maxStringLen is the true maximum, no duplicate strings (no unknown "
			"blocks), every string index at a StringRef hook offset is empty or inside the table and denotes the field's text; a third of the outputs is also written into a stream that already holds 1..70000 bytes (or a first copy of the model) and must equal the fresh-stream file from that position on, leaving the earlier bytes alone. Non-trivial = written file with >1 block; distinct by output hash.",
			[] { return layout().total(); }, run, 30, 120.0, false, false, nullptr});
} // namespace
