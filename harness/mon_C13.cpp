// C13 — geometry written through the API is what is read back, in every version.
#include "common.hpp"
#include "sources.hpp"

namespace {
using namespace vf;

static const char* VN[] = {"OB", "FO3", "SK", "SSE", "FO4", "FO76"};
static const int NVC[] = {1, 2, 3, 17, 1000, 65535, 65536, 70000, 5, 64};
static const int NTC[] = {0, 1, 50, 65535, 65536, 70000};   // clipped to what the vertex count allows

float halfRT(float x) { return (float)half_float::half(x); }

struct Ctx {
	std::string what, ver;
	std::string site(const char* q) const { return ver + "/" + q; }
};

void cmpV3(const Ctx& c, const char* q, const std::vector<Vector3>& got, const std::vector<Vector3>& want, size_t n, float tol, bool halfPos = false) {
	R_eval();
	if (got.size() != n) { R_viol("length", c.site(q), c.what + fmt(": %s has %zu entries, expected %zu", q, got.size(), n)); return; }
	for (size_t i = 0; i < n; i++) {
		Vector3 w = want[i];
		if (halfPos) w = Vector3(halfRT(w.x), halfRT(w.y), halfRT(w.z));
		float d = std::max({std::fabs(got[i].x - w.x), std::fabs(got[i].y - w.y), std::fabs(got[i].z - w.z)});
		if (!(d <= tol)) { R_viol("value", c.site(q), c.what + fmt(": %s[%zu] = (%g,%g,%g), expected (%g,%g,%g) within %g", q, i, got[i].x, got[i].y, got[i].z, w.x, w.y, w.z, tol)); return; }
	}
}
void cmpV2(const Ctx& c, const char* q, const std::vector<Vector2>& got, const std::vector<Vector2>& want, size_t n, bool half) {
	R_eval();
	if (got.size() != n) { R_viol("length", c.site(q), c.what + fmt(": %s has %zu entries, expected %zu", q, got.size(), n)); return; }
	for (size_t i = 0; i < n; i++) {
		float wu = half ? halfRT(want[i].u) : want[i].u, wv = half ? halfRT(want[i].v) : want[i].v;
		if (got[i].u != wu || got[i].v != wv) { R_viol("value", c.site(q), c.what + fmt(": %s[%zu] = (%g,%g), expected (%g,%g)%s", q, i, got[i].u, got[i].v, wu, wv, half ? " (half precision)" : "")); return; }
	}
}
void cmpTris(const Ctx& c, const char* q, const std::vector<Triangle>& got, const std::vector<Triangle>& want, size_t n) {
	R_eval();
	if (got.size() != n) { R_viol("length", c.site(q), c.what + fmt(": %s has %zu triangles, expected %zu", q, got.size(), n)); return; }
	for (size_t i = 0; i < n; i++)
		if (got[i].p1 != want[i].p1 || got[i].p2 != want[i].p2 || got[i].p3 != want[i].p3) { R_viol("value", c.site(q), c.what + fmt(": %s[%zu] = (%u,%u,%u), expected (%u,%u,%u)", q, i, got[i].p1, got[i].p2, got[i].p3, want[i].p1, want[i].p2, want[i].p3)); return; }
}

// every per-vertex array the accessors return has the vertex count
void checkLengths(const Ctx& c, NifFile& nif, NiShape* s, const char* after) {
	R_eval();
	size_t nv = s->GetNumVertices();
	auto bad = [&](const char* q, size_t len) { R_viol("length-after-setter", c.site(q), c.what + fmt(": after %s, %s has %zu entries but the shape has %zu vertices", after, q, len, nv)); };
	std::vector<Vector3> v(2, Vector3(7, 7, 7));   // output objects arrive holding an earlier answer
	if (nif.GetVertsForShape(s, v) && v.size() != nv) return bad("verts", v.size());
	std::vector<Vector2> uv(2, Vector2(7, 7));
	if (nif.GetUvsForShape(s, uv) && uv.size() != nv) return bad("uvs", uv.size());
	if (auto n = nif.GetNormalsForShape(s)) if (s->HasNormals() && n->size() != nv) return bad("normals", n->size());
	std::vector<Vector3> t(2, Vector3(7, 7, 7)), b(5, Vector3(7, 7, 7));
	if (nif.GetTangentsForShape(s, t) && t.size() != nv) return bad("tangents", t.size());
	if (nif.GetBitangentsForShape(s, b) && b.size() != nv) return bad("bitangents", b.size());
	std::vector<Color4> col(2, Color4(7, 7, 7, 7));
	if (nif.GetColorsForShape(s, col) && col.size() != nv) return bad("colors", col.size());
	std::vector<float> eye(2, 7.0f);
	if (NifFile::GetEyeDataForShape(s, eye) && eye.size() != nv) return bad("eye", eye.size());
}

struct Geo {
	std::vector<Vector3> verts, normals, tangents, bitangents;
	std::vector<Vector2> uvs;
	std::vector<Color4> colors;
	std::vector<float> eye;
	std::vector<Triangle> tris;
	bool hasNormals = false, hasTangents = false, hasColors = false, hasEye = false;
	BoundingSphere bounds;
	bool boundsSet = false;
	bool trisAsMultiset = false;   // skinned SSE shapes read their triangles back from the partitions: same triangles, possibly rotated / regrouped
};

// compares what the accessors return with `g` under the precision of `stage` (memory or file)
void checkAgainst(const Ctx& c, NifFile& nif, NiShape* s, const Geo& g, bool fromFile) {
	bool bs = s->HasType<BSTriShape>();
	auto bst = dynamic_cast<BSTriShape*>(s);
	bool halfPos = bs && fromFile && !(bst->IsFullPrecision() || nif.GetHeader().GetVersion().IsSSE());
	size_t nv = g.verts.size();
	if (s->GetNumVertices() != nv) { R_viol("vertex-count", c.site("numVertices"), c.what + fmt(": GetNumVertices() = %u, expected %zu", s->GetNumVertices(), nv)); return; }
	std::vector<Vector3> v(2, Vector3(7, 7, 7));   // output objects arrive holding an earlier answer
	nif.GetVertsForShape(s, v);
	cmpV3(c, "verts", v, g.verts, nv, 0.0f, halfPos);
	if (auto pv = nif.GetVertsForShape(s)) cmpV3(c, "vertsPtr", *pv, g.verts, nv, 0.0f, halfPos);
	std::vector<Triangle> t(2, Triangle(7, 7, 7));
	s->GetTriangles(t);
	if (g.trisAsMultiset && fromFile) {
		R_eval();
		auto key = [](Triangle x) { while (x.p1 > x.p2 || x.p1 > x.p3) x.rot(); return std::make_tuple(x.p1, x.p2, x.p3); };
		std::multiset<std::tuple<uint16_t, uint16_t, uint16_t>> a, b;
		for (auto& x : t) a.insert(key(x));
		for (auto& x : g.tris) b.insert(key(x));
		if (a != b) R_viol("value", c.site("triangles"), c.what + fmt(": triangles read back (%zu) are not the triangles that were set (%zu), compared as a multiset up to rotation", t.size(), g.tris.size()));
	}
	else cmpTris(c, "triangles", t, g.tris, g.tris.size());
	if (s->GetNumTriangles() != g.tris.size()) R_viol("triangle-count", c.site("numTriangles"), c.what + fmt(": GetNumTriangles() = %u, expected %zu", s->GetNumTriangles(), g.tris.size()));
	std::vector<Vector2> uv(2, Vector2(7, 7));
	if (!g.uvs.empty()) {
		if (nif.GetUvsForShape(s, uv)) cmpV2(c, "uvs", uv, g.uvs, nv, bs && fromFile);
		else if (nv > 0) R_viol("missing", c.site("uvs"), c.what + ": GetUvsForShape reports no UVs");
	}
	const float q = 1.0f / 255.0f + 1e-6f;
	if (g.hasNormals) {
		auto n = nif.GetNormalsForShape(s);
		if (!n) R_viol("missing", c.site("normals"), c.what + ": GetNormalsForShape returns nothing although normals were given");
		else cmpV3(c, "normals", *n, g.normals, nv, bs ? q : 0.0f);
	}
	if (g.hasTangents) {
		std::vector<Vector3> tg(2, Vector3(7, 7, 7)), bt(5, Vector3(7, 7, 7));
		if (!nif.GetTangentsForShape(s, tg)) R_viol("missing", c.site("tangents"), c.what + ": tangents were set but GetTangentsForShape reports none");
		else cmpV3(c, "tangents", tg, g.tangents, nv, bs ? q : 0.0f);
		if (!nif.GetBitangentsForShape(s, bt)) R_viol("missing", c.site("bitangents"), c.what + ": bitangents were set but GetBitangentsForShape reports none");
		else {
			// BSTriShape keeps bitangent.x as float (half in half-precision files), y and z as bytes
			std::vector<Vector3> want = g.bitangents;
			if (halfPos) for (auto& w : want) w.x = halfRT(w.x);
			cmpV3(c, "bitangents", bt, want, nv, bs ? q : 0.0f);
			if (bs) for (size_t i = 0; i < nv && i < bt.size(); i++) if (bt[i].x != want[i].x) { R_viol("value", c.site("bitangents.x"), c.what + fmt(": bitangent[%zu].x = %g, expected %g exactly", i, bt[i].x, want[i].x)); break; }
		}
	}
	if (g.hasColors) {
		std::vector<Color4> col(2, Color4(7, 7, 7, 7));
		if (!nif.GetColorsForShape(s, col)) R_viol("missing", c.site("colors"), c.what + ": colours were set but GetColorsForShape reports none");
		else {
			R_eval();
			if (col.size() != nv) R_viol("length", c.site("colors"), c.what + fmt(": %zu colours for %zu vertices", col.size(), nv));
			else for (size_t i = 0; i < nv; i++) {
				float d = std::max({std::fabs(col[i].r - g.colors[i].r), std::fabs(col[i].g - g.colors[i].g), std::fabs(col[i].b - g.colors[i].b), std::fabs(col[i].a - g.colors[i].a)});
				if (!(d <= (bs ? q : 0.0f))) { R_viol("value", c.site("colors"), c.what + fmt(": colour[%zu] off by %g", i, d)); break; }
			}
		}
	}
	if (g.hasEye && bs) {
		std::vector<float> eye(2, 7.0f);
		if (!NifFile::GetEyeDataForShape(s, eye)) R_viol("missing", c.site("eye"), c.what + ": eye data was set but GetEyeDataForShape reports none");
		else { R_eval(); if (eye != g.eye) R_viol("value", c.site("eye"), c.what + ": eye data differs from what was set"); }
	}
	if (g.boundsSet) {
		BoundingSphere b = s->GetBounds();
		if (b.center.x != g.bounds.center.x || b.center.y != g.bounds.center.y || b.center.z != g.bounds.center.z || b.radius != g.bounds.radius)
			R_viol("value", c.site("bounds"), c.what + fmt(": bounds (%g,%g,%g r=%g), expected (%g,%g,%g r=%g)", b.center.x, b.center.y, b.center.z, b.radius, g.bounds.center.x, g.bounds.center.y, g.bounds.center.z, g.bounds.radius));
	}
}

NiShape* reloadShape(NifFile& src, NifFile& dst, bool raw, const Ctx& c) {
	std::string bytes = saveNif(src, raw);
	if (loadNif(dst, bytes) != 0) { R_viol("reload", c.site("load"), c.what + ": saved model does not load"); return nullptr; }
	auto shapes = dst.GetShapes();
	if (shapes.size() != 1) { R_viol("reload", c.site("shape-count"), c.what + fmt(": %zu shapes after reload, expected 1", shapes.size())); return nullptr; }
	return shapes[0];
}

void run(size_t idx) {
	size_t vi = idx % 6, nvi = (idx / 6) % 10, nti = (idx / 60) % 6, rep = idx / 360;
	const VerInfo& v = *findVer(VN[vi]);
	int nvReq = NVC[nvi], ntReq = NTC[nti];
	uint64_t seed = mix(g_cfg.seed, 0xC13000 + idx);
	Rng rng(seed);
	// triangles need at least 3 vertices and distinct triples
	int nvForTris = std::min(nvReq, 65535);
	if (nvForTris < 3) ntReq = 0;
	long maxDistinct = nvForTris >= 3 ? (long)nvForTris * (nvForTris - 1) * (nvForTris - 2) / 3 : 0;
	if (ntReq > maxDistinct / 2) ntReq = (int)std::max<long>(0, maxDistinct / 2);
	Mesh mesh = randomMesh(rng, nvForTris, ntReq, false);
	if (nvReq > nvForTris) {   // over-long vertex arrays: the API clamps to the 16-bit limit
		for (int i = nvForTris; i < nvReq; i++) { mesh.verts.push_back(Vector3(1, 2, 3)); mesh.uvs.push_back(Vector2(0.5f, 0.5f)); mesh.normals.push_back(Vector3(0, 0, 1)); }
	}
	while ((int)mesh.tris.size() > ntReq) mesh.tris.pop_back();
	bool withNormals = (idx / 7) % 3 != 0;
	Ctx c;
	c.ver = v.n;
	c.what = fmt("%s nv=%d nt=%zu normals=%d rep=%zu seed=%llu", v.n, nvReq, mesh.tris.size(), withNormals, rep, (unsigned long long)seed);
	R_caseDesc(c.what);

	NifFile nif;
	if (idx % 2) { Rng hr(seed ^ 0x0B7); c.what += " {object " + useObject(nif, hr) + "}"; R_caseDesc(c.what); }   // every second model is built in a used object
	nif.Create(toNiVersion(v));
	R_phase("create");
	NiShape* s = nif.CreateShapeFromData("shape", &mesh.verts, &mesh.tris, &mesh.uvs, withNormals ? &mesh.normals : nullptr);
	if (!s) { R_viol("create", c.site("create"), c.what + ": CreateShapeFromData returned null"); return; }
	bool bs = s->HasType<BSTriShape>();
	size_t nvEff = std::min<size_t>(mesh.verts.size(), 65535);
	// triangle counts are 16-bit in every format before FO4 (NiTriShapeData and the SSE BSTriShape)
	size_t triLimit = (v.stream >= 130 && v.file == 0x14020007) ? (size_t)0xFFFFFFFFu : (size_t)65535;
	size_t ntEff = std::min(mesh.tris.size(), triLimit);
	Geo g;
	g.verts.assign(mesh.verts.begin(), mesh.verts.begin() + (long)nvEff);
	// over-long inputs (more than 65535 vertices) are outside the documented domain: only the clamped positions and triangles
	// are compared for them (the API drops per-vertex attributes whose length no longer matches)
	if (mesh.verts.size() == nvEff) g.uvs.assign(mesh.uvs.begin(), mesh.uvs.begin() + (long)nvEff);
	g.tris.assign(mesh.tris.begin(), mesh.tris.begin() + (long)ntEff);
	if (withNormals) { g.normals.assign(mesh.normals.begin(), mesh.normals.begin() + (long)nvEff); g.hasNormals = mesh.verts.size() == nvEff; }
	R_phase("check:created");
	checkAgainst(c, nif, s, g, false);
	checkLengths(c, nif, s, "CreateShapeFromData");

	// save + reload
	R_phase("reload:created");
	{
		NifFile re;
		Ctx c2 = c;
		c2.what += " [after raw save+load]";
		if (NiShape* rs = reloadShape(nif, re, true, c2)) { checkAgainst(c2, re, rs, g, true); checkLengths(c2, re, rs, "reload"); }
	}
	if (nvEff == 0) return;

	// every third small model is skinned first (two bones, every vertex bound to them, partitions built): for SSE the vertex data of a
	// skinned shape is written by its NiSkinPartition, and nothing below rebuilds the partitions before the model is saved
	bool skinnedVariant = (idx / 6) % 3 == 2 && nvEff >= 3 && nvEff <= 2000 && !g.tris.empty();
	if (skinnedVariant) {
		R_phase("skin");
		nif.CreateSkinning(s);
		s = nif.FindBlockByName<NiShape>("shape");
		std::vector<int> ids;
		for (int b = 0; b < 2; b++) { MatTransform t; t.translation = Vector3((float)b, 0, 0); ids.push_back((int)nif.GetBlockID(nif.AddNode(fmt("Bone%d", b), t))); }
		s = nif.FindBlockByName<NiShape>("shape");
		nif.SetShapeBoneIDList(s, ids);
		bool fo4 = v.stream >= 130 && v.file == 0x14020007;
		if (!fo4) {
			std::unordered_map<uint16_t, float> w0, w1;
			for (size_t i = 0; i < nvEff; i++) { w0[(uint16_t)i] = 0.75f; w1[(uint16_t)i] = 0.25f; }
			nif.SetShapeBoneWeights("shape", 0, w0);
			nif.SetShapeBoneWeights("shape", 1, w1);
		}
		if (fo4 || v.stream == 100) {
			std::vector<uint8_t> bi{0, 1};
			std::vector<float> ww{0.75f, 0.25f};
			for (size_t i = 0; i < nvEff; i++) nif.SetShapeVertWeights("shape", (uint16_t)i, bi, ww);
		}
		if (!fo4) nif.UpdateSkinPartitions(s);
		s = nif.FindBlockByName<NiShape>("shape");
		c.what += " [skinned before the setters]";
		R_caseDesc(c.what);
		R_stat("models_skinned_before_the_setters");
		g.trisAsMultiset = true;
	}

	// setters
	R_phase("setters");
	Ctx cs = c;
	cs.what += " [setters]";
	auto rv3 = [&](float m) { std::vector<Vector3> o(nvEff); for (auto& x : o) x = Vector3(rng.range(-m, m), rng.range(-m, m), rng.range(-m, m)); return o; };
	auto unit = [&]() { std::vector<Vector3> o(nvEff); for (auto& x : o) { x = Vector3(rng.range(-1, 1), rng.range(-1, 1), rng.range(-1, 1)); if (x.length() < 0.1f) x = Vector3(1, 0, 0); x.Normalize(); } return o; };
	g.verts = rv3(20.0f);
	nif.SetVertsForShape(s, g.verts);
	checkLengths(cs, nif, s, "SetVertsForShape");
	// single-vertex setter: first, last and a few seeded indices (the triangle count has no say in which vertices exist)
	{
		std::vector<size_t> ids{0, nvEff - 1, nvEff / 2};
		for (int k = 0; k < 3; k++) ids.push_back(rng.below((uint32_t)nvEff));
		for (auto id : ids) {
			Vector3 p(rng.range(-30, 30), rng.range(-30, 30), rng.range(-30, 30));
			nif.MoveVertex(s, p, (int)id);
			g.verts[id] = p;
		}
		nif.MoveVertex(s, Vector3(1, 2, 3), (int)nvEff);   // one past the end: ignored
		checkLengths(cs, nif, s, "MoveVertex");
	}
	g.uvs.resize(nvEff);
	for (auto& u : g.uvs) u = Vector2(rng.range(-2, 2), rng.range(-2, 2));
	nif.SetUvsForShape(s, g.uvs);
	checkLengths(cs, nif, s, "SetUvsForShape");
	// a shape created without normals stays without them in half of the cases (per-vertex attributes are stored independently of each other)
	bool stayWithoutNormals = !withNormals && (idx / 21) % 2 == 0;
	if (!stayWithoutNormals) {
		g.normals = unit();
		g.hasNormals = true;
		nif.SetNormalsForShape(s, g.normals);
		checkLengths(cs, nif, s, "SetNormalsForShape");
		g.tangents = unit();
		g.bitangents = unit();
		g.hasTangents = true;
		nif.SetTangentsForShape(s, g.tangents);
		nif.SetBitangentsForShape(s, g.bitangents);
		checkLengths(cs, nif, s, "SetTangents/BitangentsForShape");
	}
	else { cs.what += " [no normals]"; R_stat("models_that_stay_without_normals"); }
	g.colors.resize(nvEff);
	for (auto& col : g.colors) col = Color4(rng.unit(), rng.unit(), rng.unit(), rng.coin(5) ? 1.0f : rng.unit());
	g.hasColors = true;
	nif.SetColorsForShape(s, g.colors);
	checkLengths(cs, nif, s, "SetColorsForShape");
	if (bs && !s->HasType<BSDynamicTriShape>()) {
		g.eye.resize(nvEff);
		for (auto& e : g.eye) e = rng.range(-1, 1);
		g.hasEye = true;
		NifFile::SetEyeDataForShape(s, g.eye);
		checkLengths(cs, nif, s, "SetEyeDataForShape");
	}
	if (nvEff >= 3 && !skinnedVariant) {   // a new triangle list on a skinned shape needs UpdateSkinPartitions (documented), which this variant leaves out
		Mesh m2 = randomMesh(rng, (int)std::min<size_t>(nvEff, 65535), (int)std::min<size_t>(g.tris.size() + 3, 300), false);
		g.tris = m2.tris;
		s->SetTriangles(g.tris);
		checkLengths(cs, nif, s, "SetTriangles");
	}
	g.bounds = BoundingSphere(Vector3(rng.range(-5, 5), rng.range(-5, 5), rng.range(-5, 5)), rng.range(1, 50));
	g.boundsSet = true;
	s->SetBounds(g.bounds);
	R_phase("check:setters");
	checkAgainst(cs, nif, s, g, false);

	R_phase("reload:setters:raw");
	{
		NifFile re;
		Ctx c2 = c;
		c2.what += " [setters, raw save+load]";
		if (NiShape* rs = reloadShape(nif, re, true, c2)) { checkAgainst(c2, re, rs, g, true); checkLengths(c2, re, rs, "reload"); }
	}
	R_phase("reload:setters:default");
	{
		NifFile cp(nif);
		NifFile re;
		Ctx c2 = c;
		c2.what += " [setters, default save+load]";
		Geo g2 = g;
		g2.boundsSet = false;   // a default save recomputes the bounds
		if (NiShape* rs = reloadShape(cp, re, false, c2)) checkAgainst(c2, re, rs, g2, true);
	}
	// second generation on the same, already saved object: fewer vertices, every per-vertex attribute set again, saved and read back
	// (blocks that the first save created or sized, e.g. Oblivion's tangent-space extra data, have to follow the new count)
	if (!skinnedVariant && nvEff >= 6 && nvEff <= 5000 && (idx / 6) % 3 == 1) {
		R_phase("second-generation");
		std::vector<uint16_t> del;
		for (size_t i = 0; i < nvEff; i++)
			if (rng.coin(4) || i + 1 == nvEff) del.push_back((uint16_t)i);
		if (nvEff - del.size() >= 3) {
			nif.DeleteVertsForShape(s, del);
			s = nif.FindBlockByName<NiShape>("shape");
			if (s && s->GetNumVertices() == nvEff - del.size()) {
				nvEff -= del.size();
				Ctx c3 = c;
				c3.what += fmt(" [second generation: %zu vertices deleted after the first saves, attributes set again]", del.size());
				R_caseDesc(c3.what);
				Geo h;
				h.verts = rv3(20.0f);
				nif.SetVertsForShape(s, h.verts);
				h.uvs.resize(nvEff);
				for (auto& u : h.uvs) u = Vector2(rng.range(-2, 2), rng.range(-2, 2));
				nif.SetUvsForShape(s, h.uvs);
				if (g.hasNormals) {
					h.normals = unit(); h.hasNormals = true; nif.SetNormalsForShape(s, h.normals);
					h.tangents = unit(); h.bitangents = unit(); h.hasTangents = true;
					nif.SetTangentsForShape(s, h.tangents);
					nif.SetBitangentsForShape(s, h.bitangents);
				}
				h.colors.resize(nvEff);
				for (auto& col : h.colors) col = Color4(rng.unit(), rng.unit(), rng.unit(), rng.unit());
				h.hasColors = true;
				nif.SetColorsForShape(s, h.colors);
				if (g.hasEye) { h.eye.resize(nvEff); for (auto& e : h.eye) e = rng.range(-1, 1); h.hasEye = true; NifFile::SetEyeDataForShape(s, h.eye); }
				s->GetTriangles(h.tris);   // what a deletion leaves of the triangles is C09's subject
				h.trisAsMultiset = g.trisAsMultiset;
				checkLengths(c3, nif, s, "second generation");
				checkAgainst(c3, nif, s, h, false);
				NifFile re;
				Ctx c4 = c3;
				c4.what += " [raw save+load]";
				if (NiShape* rs = reloadShape(nif, re, true, c4)) { checkAgainst(c4, re, rs, h, true); checkLengths(c4, re, rs, "reload"); }
				R_stat("second_generation_models");
			}
		}
	}
	R_cover(c.what);
	if (idx % 97 == 0) R_sample(fmt("{\"version\":\"%s\",\"vertices_given\":%d,\"vertices_stored\":%zu,\"triangles\":%zu,\"shape_type\":\"%s\"}", v.n, nvReq, nvEff, g.tris.size(), s->GetBlockName()));
}

MonReg reg({"C13", "exploration",
			"versions OB/FO3/SK/SSE/FO4/FO76 x vertex counts {1,2,3,5,17,64,1000,65535,65536,70000} x triangle counts {0,1,50,65535,65536,70000} (clipped to what the vertices allow) x "
			"with/without normals x seeds. Per case: CreateShapeFromData, then every getter compared with the given data (exact in memory; after raw save+load: positions exact or "
			"half-rounded where the vertex descriptor says half, BSTriShape UVs half-rounded, byte-quantised normals/tangents/colours within 1/255, eye data and bitangent.x exact), then "
			"each setter (positions, UVs, normals, tangents, bitangents, colours, eye data, triangles, bounds) followed by all getters: value within the storage quantisation, every "
			"per-vertex array keeps the vertex count (getters are handed vectors that still hold an earlier answer); again after raw and after default save+load; a third of the unskinned models then go through a second generation on the same, already saved object (random vertices deleted, every attribute set again for the smaller count, getters and raw save+load compared). Over-long inputs must be clamped to the 16-bit limits. Non-trivial = every case.",
			[] { return (size_t)360 * (g_cfg.tier ? 24 : 2); }, run, 12, 300.0, false, false, nullptr});
} // namespace
