// Independent reader/writer of the NIF container (header tables, block boundaries, footer).
// Deliberately shares no code with nifly: written from the file format, used as the judge for
// C03/C07, as the assembler of synthesised files and to patch payload bytes without the library.
#pragma once
#include <cstdint>
#include <cstdio>
#include <cstring>
#include <string>
#include <vector>

namespace indep {

struct Header {
	bool ok = false;
	std::string error;
	std::string line;              // first line without '\n'
	uint32_t file = 0, user = 0, stream = 0;
	int endian = -1;               // -1: field absent
	uint32_t numBlocks = 0;
	bool bethesda = false;
	std::string creator, export1, export2, export3;   // raw short-string payloads (may include trailing NUL)
	uint32_t unkInt1 = 0;
	bool hasTypes = false, hasSizes = false, hasStrings = false, hasGroups = false;
	std::vector<std::string> types;
	std::vector<uint16_t> typeIndex;
	std::vector<uint32_t> sizes;
	std::vector<std::string> strings;
	uint32_t maxStringLen = 0;
	std::vector<uint32_t> groups;
	size_t headerEnd = 0;          // offset of the first block
	// derived when sizes are present and consistent
	std::vector<size_t> blockStart;
	size_t blocksEnd = 0;
	size_t sizeTablePos = 0, stringTablePos = 0, typeIndexPos = 0;

	std::string typeOf(size_t i) const { return (i < typeIndex.size() && typeIndex[i] < types.size()) ? types[typeIndex[i]] : std::string("?"); }
};

inline bool isOB(uint32_t file, uint32_t user) {
	return ((file == 0x0A01006A || file == 0x0A020000) && user >= 3 && user < 11) || (file == 0x14000004 && (user == 10 || user == 11)) || (file == 0x14000005 && user == 11);
}
inline bool isBethesda(uint32_t file, uint32_t user) { return (file == 0x14020007 && user >= 11) || isOB(file, user); }

struct Cursor {
	const std::string& b;
	size_t p = 0;
	bool fail = false;
	explicit Cursor(const std::string& s) : b(s) {}
	bool need(size_t n) { if (p + n > b.size()) { fail = true; return false; } return true; }
	uint8_t u8() { if (!need(1)) return 0; return (uint8_t)b[p++]; }
	uint16_t u16() { if (!need(2)) return 0; uint16_t v; memcpy(&v, &b[p], 2); p += 2; return v; }
	uint32_t u32() { if (!need(4)) return 0; uint32_t v; memcpy(&v, &b[p], 4); p += 4; return v; }
	std::string bytes(size_t n) { if (!need(n)) return {}; std::string s = b.substr(p, n); p += n; return s; }
};

inline Header parse(const std::string& b) {
	Header h;
	size_t nl = b.find('\n');
	if (nl == std::string::npos || nl > 200) { h.error = "no header line"; return h; }
	h.line = b.substr(0, nl);
	Cursor c(b);
	c.p = nl + 1;
	h.file = c.u32();
	if (h.file >= 0x14000003) h.endian = c.u8();
	if (h.file >= 0x0A000108) h.user = c.u32();
	h.numBlocks = c.u32();
	if (c.fail) { h.error = "truncated fixed header"; return h; }
	if (h.numBlocks > 10000000) { h.error = "absurd block count"; return h; }
	h.bethesda = isBethesda(h.file, h.user);
	if (h.bethesda) {
		h.stream = c.u32();
		auto ss = [&]() { uint8_t n = c.u8(); return c.bytes(n); };
		h.creator = ss();
		if (h.stream > 130) h.unkInt1 = c.u32();
		h.export1 = ss();
		h.export2 = ss();
		if (h.stream == 130) h.export3 = ss();
	}
	if (h.file >= 0x05000001) {
		h.hasTypes = true;
		uint16_t nt = c.u16();
		for (uint16_t i = 0; i < nt && !c.fail; i++) { uint32_t n = c.u32(); if (n > 4096) { c.fail = true; break; } h.types.push_back(c.bytes(n)); }
		h.typeIndexPos = c.p;
		for (uint32_t i = 0; i < h.numBlocks && !c.fail; i++) h.typeIndex.push_back(c.u16());
	}
	if (h.file >= 0x14020005) {
		h.hasSizes = true;
		h.sizeTablePos = c.p;
		for (uint32_t i = 0; i < h.numBlocks && !c.fail; i++) h.sizes.push_back(c.u32());
	}
	if (h.file >= 0x14010001) {
		h.hasStrings = true;
		h.stringTablePos = c.p;
		uint32_t ns = c.u32();
		h.maxStringLen = c.u32();
		if (ns > 10000000) c.fail = true;
		for (uint32_t i = 0; i < ns && !c.fail; i++) { uint32_t n = c.u32(); if (n > (1u << 24)) { c.fail = true; break; } h.strings.push_back(c.bytes(n)); }
	}
	if (h.file >= 0x05000006) {
		h.hasGroups = true;
		uint32_t ng = c.u32();
		if (ng > 100000) c.fail = true;
		for (uint32_t i = 0; i < ng && !c.fail; i++) h.groups.push_back(c.u32());
	}
	if (c.fail) { h.error = "truncated or malformed header tables"; return h; }
	h.headerEnd = c.p;
	if (h.hasSizes) {
		size_t p = h.headerEnd;
		for (auto s : h.sizes) { h.blockStart.push_back(p); p += s; }
		h.blocksEnd = p;
	}
	h.ok = true;
	return h;
}

// ---- writer
struct Out {
	std::string b;
	void u8(uint8_t v) { b.push_back((char)v); }
	void u16(uint16_t v) { b.append((const char*)&v, 2); }
	void u32(uint32_t v) { b.append((const char*)&v, 4); }
	void str4(const std::string& s) { u32((uint32_t)s.size()); b += s; }
	void sstrRaw(const std::string& s) { u8((uint8_t)s.size()); b += s; }
};

// Serialises the header of `h` (tables as given) — payload bytes are appended by the caller.
inline std::string writeHeader(const Header& h) {
	Out w;
	w.b = h.line + "\n";
	w.u32(h.file);
	if (h.file >= 0x14000003) w.u8((uint8_t)(h.endian < 0 ? 1 : h.endian));
	if (h.file >= 0x0A000108) w.u32(h.user);
	w.u32(h.numBlocks);
	if (isBethesda(h.file, h.user)) {
		w.u32(h.stream);
		w.sstrRaw(h.creator);
		if (h.stream > 130) w.u32(h.unkInt1);
		w.sstrRaw(h.export1);
		w.sstrRaw(h.export2);
		if (h.stream == 130) w.sstrRaw(h.export3);
	}
	if (h.file >= 0x05000001) {
		w.u16((uint16_t)h.types.size());
		for (auto& t : h.types) w.str4(t);
		for (auto i : h.typeIndex) w.u16(i);
	}
	if (h.file >= 0x14020005)
		for (auto s : h.sizes) w.u32(s);
	if (h.file >= 0x14010001) {
		w.u32((uint32_t)h.strings.size());
		w.u32(h.maxStringLen);
		for (auto& s : h.strings) w.str4(s);
	}
	if (h.file >= 0x05000006) {
		w.u32((uint32_t)h.groups.size());
		for (auto g : h.groups) w.u32(g);
	}
	return w.b;
}

inline std::string versionLine(uint32_t file) {
	char line[128];
	snprintf(line, sizeof line, "Gamebryo File Format, Version %u.%u.%u.%u", file >> 24, (file >> 16) & 255, (file >> 8) & 255, file & 255);
	return line;
}

// Assembles a complete file from typed payloads.
inline std::string assemble(uint32_t file, uint32_t user, uint32_t stream, const std::vector<std::string>& blockTypes, const std::vector<std::string>& payloads,
							const std::vector<std::string>& strings) {
	Header h;
	h.line = versionLine(file);
	h.file = file; h.user = user; h.stream = stream; h.endian = 1;
	h.numBlocks = (uint32_t)blockTypes.size();
	h.creator = std::string("synth\0", 6);
	h.export1 = std::string("e1\0", 3);
	h.export2 = std::string("e2\0", 3);
	h.export3 = std::string("e3\0", 3);
	for (auto& t : blockTypes) {
		size_t k = 0;
		for (; k < h.types.size(); k++)
			if (h.types[k] == t) break;
		if (k == h.types.size()) h.types.push_back(t);
		h.typeIndex.push_back((uint16_t)k);
	}
	for (auto& p : payloads) h.sizes.push_back((uint32_t)p.size());
	h.strings = strings;
	for (auto& s : strings) h.maxStringLen = std::max<uint32_t>(h.maxStringLen, (uint32_t)s.size());
	std::string out = writeHeader(h);
	for (auto& p : payloads) out += p;
	Out f; f.u32(1); f.u32(0);
	return out + f.b;
}

// Re-serialises `bytes` with a modified header (same payload area).  Requires parse(bytes).ok.
inline std::string withHeader(const std::string& bytes, const Header& orig, const Header& mod) { return writeHeader(mod) + bytes.substr(orig.headerEnd); }

} // namespace indep
