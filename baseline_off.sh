#!/bin/sh
# Repository's own build + test-suite with the NIFLY_VERIF guard OFF (nothing defines it).
set -e
BD="${VERIF_BASELINE_DIR:-/verif/.cache/baseline_off}"
mkdir -p "$BD"
cmake -G Ninja -S /repo -B "$BD" -DCMAKE_BUILD_TYPE=RelWithDebInfo -DCMAKE_CXX_FLAGS=-Wno-error >/dev/null
cmake --build "$BD" -j16 >/dev/null
cd /repo
ctest --test-dir "$BD" -j8 --timeout 900 --output-junit "$BD/junit.xml"
