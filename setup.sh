#!/bin/sh
# Offline setup after a fresh restore: warm the ccache-backed monitored build of /repo + harness.
cd "$(dirname "$0")" || exit 2
python3 driver/build.py mon || exit 2
if [ -d ref/src ]; then python3 driver/c08.py build || exit 2; fi
exit 0
