#!/bin/sh
# verify_seed.sh <worktree>: confirms a seeded change independently:
#   with the change: library builds, all 28 tests pass, demo exits non-zero; without it: demo exits 0.
D="$1"
[ -f "$D/seeded/patch.diff" ] || { echo "no patch.diff"; exit 2; }
cd "$D" || exit 2
git checkout -q -- src include 2>/dev/null
git apply --check seeded/patch.diff || { echo "RESULT patch does not apply"; exit 1; }
git apply seeded/patch.diff
cmake -G Ninja -S "$D" -B "$D/_build" -DCMAKE_BUILD_TYPE=RelWithDebInfo -DCMAKE_CXX_FLAGS=-Wno-error >/dev/null 2>&1
cmake --build "$D/_build" -j8 >/dev/null 2>&1 || { echo "RESULT build fails with the change"; exit 1; }
T=$(cd "$D" && ctest --test-dir "$D/_build" -j4 2>&1 | grep "tests passed")
echo "tests(with change): $T"
g++ -std=c++17 -O1 -g -I"$D/include" -I"$D/external" "$D/seeded/demo.cpp" "$D/_build/src/libnifly.a" -o "$D/seeded/demo_with" 2>/dev/null || { echo "RESULT demo does not compile"; exit 1; }
(cd "$D" && timeout 120 "$D/seeded/demo_with" "$D" >/dev/null 2>&1); RC1=$?
git checkout -q -- src include
cmake --build "$D/_build" -j8 >/dev/null 2>&1
g++ -std=c++17 -O1 -g -I"$D/include" -I"$D/external" "$D/seeded/demo.cpp" "$D/_build/src/libnifly.a" -o "$D/seeded/demo_without" 2>/dev/null
(cd "$D" && timeout 120 "$D/seeded/demo_without" "$D" >/dev/null 2>&1); RC2=$?
echo "demo exit with change: $RC1, without: $RC2"
case "$T" in "100% tests passed"*) ;; *) echo "RESULT tests do not all pass with the change"; exit 1;; esac
if [ "$RC1" != 0 ] && [ "$RC2" = 0 ]; then echo "RESULT confirmed"; exit 0; fi
echo "RESULT demo does not discriminate"; exit 1
