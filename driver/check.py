#!/usr/bin/env python3
"""./check <Cxx> [--tier quick|thorough] [--seed N] [--replay file]

Builds the monitored library from /repo's current working tree, runs the monitor of one property in
16 fork-isolated shards, triages what they observed against known_findings.json and writes
evidence/<id>.json.  Exit 0 held / 1 violation / 2 harness failure or inconclusive.
"""
import hashlib
import json
import os
import re
import shutil
import subprocess
import sys
import time

HERE = os.path.dirname(os.path.abspath(__file__))
sys.path.insert(0, HERE)
import build as B  # noqa: E402

VERIF = B.VERIF
REPO = B.REPO
CACHE = B.CACHE

ASSUMPTIONS_COMMON = [
    "x86-64 Linux, g++ 12 / libstdc++; the library is built from /repo's working tree with -O1 -fsanitize=address,undefined "
    "(alignment, bool and enum checks off, see DESIGN.md 1.1) -D_GLIBCXX_ASSERTIONS -DNIFLY_VERIF",
    "the NIFLY_VERIF hooks only pass information out and never change a value, so monitored executions are the real executions",
    "a clean sanitizer run is not a proof of memory safety (red-zone tools miss non-adjacent / intra-object overflows)",
]


def san_env():
    e = dict(os.environ)
    e["ASAN_OPTIONS"] = "abort_on_error=1:detect_leaks=0:allocator_may_return_null=0:handle_abort=1:detect_stack_use_after_return=0:malloc_context_size=8:max_allocation_size_mb=6144"
    e["UBSAN_OPTIONS"] = "abort_on_error=1:print_stacktrace=1"
    e["NIFLY_REPO"] = REPO
    e["NIFLY_VERIF"] = VERIF
    return e


FRAME_RE = re.compile(r"#\d+ 0x[0-9a-f]+ in (nifly::[^\s(]+)")
ANYFRAME_RE = re.compile(r"#\d+ 0x[0-9a-f]+ in ([^\s(]+)")


def crash_signature(rec):
    log = rec.get("log", "")
    kind = "signal%s" % rec.get("sig")
    m = re.search(r"ERROR: AddressSanitizer: ([\w-]+)", log)
    if m:
        kind = "asan-" + m.group(1)
    m2 = re.search(r"runtime error: ([^\n]+)", log)
    if m2 and (not m or log.find("runtime error") < log.find("AddressSanitizer")):
        msg = re.sub(r"0x[0-9a-f]+|-?\d+(\.\d+)?(e[+-]?\d+)?", "N", m2.group(1))
        kind = "ubsan-" + msg.strip()[:60]
    if "Assertion '" in log and "glibcxx" in log.lower() or re.search(r"Assertion '.*' failed", log):
        ma = re.search(r"Assertion '([^']+)' failed", log)
        if ma and not m2:
            kind = "libstdc++-assert-" + ma.group(1)[:60]
    if rec.get("kind") == "hang":
        return "hang:%s" % (rec.get("phase") or "?")
    fm = FRAME_RE.search(log)
    frame = fm.group(1) if fm else None
    if not frame:
        fa = [f for f in ANYFRAME_RE.findall(log) if not f.startswith("__") and "sanitizer" not in f and "asan" not in f.lower()]
        frame = fa[0] if fa else "phase=" + (rec.get("phase") or "?")
    return "crash:%s:%s" % (kind, frame)


def load_known():
    p = os.path.join(VERIF, "known_findings.json")
    if not os.path.exists(p):
        return []
    return json.load(open(p)).get("findings", [])


def match_known(known, prop, sig):
    for k in known:
        if k.get("property") != prop or k.get("status") != "open":
            continue
        pat = k.get("signature", "")
        if k.get("regex"):
            if re.fullmatch(pat, sig):
                return k
        elif pat == sig:
            return k
    return None


def run_shards(binp, prop, seed, tier, workdir, nshards, only_case=None, timeout=None):
    if os.path.isdir(workdir):
        shutil.rmtree(workdir)
    os.makedirs(workdir)
    procs = []
    env = san_env()
    if only_case is not None:
        out = os.path.join(workdir, "replay.jsonl")
        cmd = [binp, prop, "--seed", str(seed), "--tier", tier, "--out", out, "--case", str(only_case)]
        p = subprocess.Popen(cmd, env=env, stdout=subprocess.PIPE, stderr=subprocess.PIPE, text=True)
        procs.append((p, out))
    else:
        for i in range(nshards):
            out = os.path.join(workdir, "shard%02d.jsonl" % i)
            cmd = [binp, prop, "--seed", str(seed), "--tier", tier, "--shard", "%d/%d" % (i, nshards), "--out", out]
            p = subprocess.Popen(cmd, env=env, stdout=subprocess.DEVNULL, stderr=subprocess.PIPE, text=True)
            procs.append((p, out))
    deadline = time.time() + timeout if timeout else None
    results = []
    timed_out = False
    for p, out in procs:
        try:
            left = None if deadline is None else max(1, deadline - time.time())
            _, err = p.communicate(timeout=left)
        except subprocess.TimeoutExpired:
            timed_out = True
            p.kill()
            _, err = p.communicate()
        results.append((p.returncode, out, err))
    return results, timed_out


def parse_outputs(results):
    recs = []
    for rc, out, err in results:
        if os.path.exists(out):
            with open(out, errors="replace") as f:
                for line in f:
                    line = line.strip()
                    if not line:
                        continue
                    try:
                        recs.append(json.loads(line))
                    except json.JSONDecodeError:
                        recs.append({"t": "garbage", "line": line[:200]})
    return recs


def main():
    args = sys.argv[1:]
    if not args:
        print(__doc__)
        return 2
    prop = args[0]
    tier = os.environ.get("VERIF_TIER", "quick")
    seed = int(os.environ.get("VERIF_SEED", "1") or "1")
    replay = None
    i = 1
    while i < len(args):
        if args[i] == "--tier":
            tier = args[i + 1]; i += 2
        elif args[i] == "--seed":
            seed = int(args[i + 1]); i += 2
        elif args[i] == "--replay":
            replay = args[i + 1]; i += 2
        else:
            print("unknown argument", args[i]); return 2
    if tier not in ("quick", "thorough"):
        tier = "quick"
    t0 = time.time()
    nshards = int(os.environ.get("VERIF_SHARDS", "16"))

    try:
        binp = B.build("mon")
        extra = {}
        if prop == "C08" and not replay:
            import c08  # noqa
            extra = c08.prepare(seed, tier)
    except RuntimeError as e:
        print("HARNESS-FAILURE: build failed\n%s" % e)
        return 2

    workdir = os.path.join(CACHE, "run", prop + ("-replay" if replay else ""))
    only_case = None
    if replay:
        r = json.load(open(replay))
        if r.get("property") != prop:
            print("replay file is for property", r.get("property")); return 2
        seed, tier, only_case = int(r["seed"]), r["tier"], int(r["case"])
        if prop == "C08":
            import c08  # noqa
            c08.prepare(seed, tier)
    if replay and ":memcheck" in (r.get("signature") or ""):
        # a finding of the supplementary memcheck stage: the case is replayed in the unsanitised build under valgrind
        import memcheck  # noqa
        mv, _, _ = memcheck.stage(prop, seed, tier, 0, os.path.join(CACHE, "run", prop + "-memcheck-replay"), only=[only_case])
        known = load_known()
        rcode = 0
        for sig, rec in mv:
            k = match_known(known, prop, sig)
            if k:
                print("KNOWN-FINDING: property=%s %s %s" % (prop, sig, k.get("description", "")))
                continue
            print("# %s: %s" % (sig, (rec.get("log") or "")[:1500]))
            print("VIOLATION property=%s replay=%s" % (prop, replay))
            rcode = 1
        print("replay (memcheck): %d record(s)" % len(mv))
        return rcode
    timeout = 8 * 3600 if tier == "thorough" else 3600
    results, timed_out = run_shards(binp, prop, seed, tier, workdir, nshards, only_case, timeout)
    recs = parse_outputs(results)

    meta = next((r for r in recs if r.get("t") == "meta"), None)
    harness_problems = []
    if timed_out:
        harness_problems.append("wall-clock watchdog fired (inconclusive)")
    for rc, out, err in results:
        if only_case is None and rc != 0:
            harness_problems.append("shard %s exited %s: %s" % (os.path.basename(out), rc, (err or "")[-300:]))
        if only_case is not None and rc not in (0, 1):
            harness_problems.append("replay exited %s: %s" % (rc, (err or "")[-2000:]))
    if not meta:
        harness_problems.append("no meta record (monitor did not start)")
    for r in recs:
        if r.get("t") == "harness":
            harness_problems.append(r.get("detail", "harness record"))
        if r.get("t") == "garbage":
            harness_problems.append("unparsable output line: " + r.get("line", ""))

    evals = 0
    cover = set()
    stats = {}
    samples = []
    viols = []   # (signature, record)
    flaky = []
    truncated = False
    for r in recs:
        t = r.get("t")
        if t == "stats":
            evals += r.get("evals", 0)
            cover.update(r.get("cover", []))
            for k, v in r.get("stats", {}).items():
                stats[k] = stats.get(k, 0) + v
            for s in r.get("samples", []):
                if len(samples) < 8:
                    samples.append(s)
        elif t == "viol":
            viols.append(("%s:%s:%s" % (prop, r.get("oracle"), r.get("site")), r))
        elif t == "crash":
            if r.get("kind") == "hang" and not r.get("hangIsViolation"):
                flaky.append(r)
                harness_problems.append("case %s exceeded the CPU limit twice in phase %s (inconclusive for this property)" % (r.get("case"), r.get("phase")))
            else:
                viols.append(("%s:%s" % (prop, crash_signature(r)), r))
        elif t == "flaky":
            flaky.append(r)
            harness_problems.append("case %s died once (sig %s, phase %s) but passed when re-run alone: inconclusive" % (r.get("case"), r.get("sig"), r.get("phase")))
        elif t == "slow":
            stats["cases_completed_on_rerun_after_cpu_limit"] = stats.get("cases_completed_on_rerun_after_cpu_limit", 0) + 1
        elif t == "truncated":
            truncated = True

    # supplementary memcheck stage (thorough tier; VERIF_MEMCHECK_CASES=n forces it in any tier)
    mc_notes = []
    if only_case is None and meta and (tier == "thorough" or os.environ.get("VERIF_MEMCHECK_CASES")):
        try:
            import memcheck  # noqa
            mv, mstats, mc_notes = memcheck.stage(prop, seed, tier, meta.get("ncases", 0), os.path.join(CACHE, "run", prop + "-memcheck"))
            viols.extend(mv)
            for k2, v2 in mstats.items():
                stats[k2] = stats.get(k2, 0) + v2
        except RuntimeError as e:
            harness_problems.append("memcheck stage: build failed: %s" % str(e)[-300:])

    known = load_known()
    by_sig = {}
    for sig, r in viols:
        by_sig.setdefault(sig, []).append(r)
    replay_dir = os.path.join(VERIF, "evidence", "replay", prop)
    new_viol_lines = []
    known_lines = []
    if only_case is None:
        if os.path.isdir(replay_dir):
            shutil.rmtree(replay_dir)
    for sig in sorted(by_sig):
        rs = by_sig[sig]
        k = match_known(known, prop, sig)
        r0 = rs[0]
        if k:
            known_lines.append("KNOWN-FINDING: property=%s %s %s (seen %d times)" % (prop, sig, k.get("description", ""), len(rs)))
            continue
        if only_case is None:
            os.makedirs(replay_dir, exist_ok=True)
            name = hashlib.sha1(sig.encode()).hexdigest()[:12] + ".json"
            path = os.path.join(replay_dir, name)
            json.dump({"property": prop, "seed": seed, "tier": tier, "case": r0.get("case"), "signature": sig, "count": len(rs),
                       "desc": r0.get("desc"), "detail": r0.get("detail"), "phase": r0.get("phase"), "log": r0.get("log", "")[:8000]},
                      open(path, "w"), indent=1)
        else:
            path = replay
        new_viol_lines.append(("VIOLATION property=%s replay=%s" % (prop, path), sig, r0, len(rs)))

    wall = time.time() - t0
    if only_case is not None:
        for line, sig, r0, n in new_viol_lines:
            print("# %s x%d: %s" % (sig, n, (r0.get("detail") or r0.get("log", ""))[:1500]))
            print(line)
        for l in known_lines:
            print(l)
        for h in harness_problems:
            print("HARNESS:", h)
        if harness_problems:
            return 2
        print("replay: %d violation record(s)" % len(viols))
        return 1 if new_viol_lines else 0

    # ---------------------------------------------------------------- evidence
    level = meta.get("level", "exploration") if meta else "exploration"
    ev = {
        "property_id": prop,
        "tier": tier,
        "seed": seed,
        "level": level,
        "coverage": {
            "evaluations": evals,
            "distinct_nontrivial": len(cover),
            "rule": meta.get("rule", "") if meta else "",
            "samples": samples,
            "cases_enumerated": meta.get("ncases", 0) if meta else 0,
            "exhaustive": bool(meta.get("exhaustive")) if meta else False,
            "observed": stats,
            "shards": nshards,
            "truncated_after_many_violations": truncated,
        },
        "assumptions": ASSUMPTIONS_COMMON + extra.get("assumptions", []) + mc_notes,
        "wall_s": round(wall, 2),
        "violations": len(new_viol_lines),
        "known_findings_seen": [l for l in known_lines],
        "violation_signatures": [sig for _, sig, _, _ in new_viol_lines],
        "inconclusive": harness_problems,
    }
    if extra.get("coverage"):
        ev["coverage"].update(extra["coverage"])
    os.makedirs(os.path.join(VERIF, "evidence"), exist_ok=True)
    evp = os.path.join(VERIF, "evidence", prop + ".json")
    if evals < 1 or len(cover) < 2 or not samples:
        harness_problems.append("monitor observed too little (evaluations=%d distinct=%d samples=%d)" % (evals, len(cover), len(samples)))
        ev["inconclusive"] = harness_problems
    json.dump(ev, open(evp + ".tmp", "w"), indent=1)
    os.replace(evp + ".tmp", evp)

    print("[%s] tier=%s seed=%d cases=%s evaluations=%d distinct_nontrivial=%d wall=%.1fs" % (prop, tier, seed, ev["coverage"]["cases_enumerated"], evals, len(cover), wall))
    keys = sorted(stats)
    if keys:
        print("[%s] observed: %s" % (prop, ", ".join("%s=%d" % (k, stats[k]) for k in keys[:40])))
    for l in known_lines:
        print(l)
    for line, sig, r0, n in new_viol_lines:
        print("# %s x%d | %s | %s" % (sig, n, (r0.get("desc") or "")[:300], (r0.get("detail") or r0.get("log", ""))[:600].replace("\n", " | ")))
        print(line)
    if new_viol_lines:
        return 1
    if harness_problems:
        for h in harness_problems:
            print("INCONCLUSIVE:", h)
        return 2
    print("[%s] held on everything explored" % prop)
    return 0


if __name__ == "__main__":
    sys.exit(main())
