#!/bin/sh
# allquick.sh [seed ...]: every quick check for each seed; one summary line per check, details for anything not silent
cd /verif || exit 2
for s in "${@:-1}"; do
  for c in C01 C02 C03 C04 C05 C06 C07 C08 C09 C10 C11 C12 C13 C14 C15 C16 C17 C18 C19 C20; do
    OUT=$(VERIF_SEED=$s ./check $c 2>&1); RC=$?
    echo "seed=$s $c exit=$RC $(printf '%s\n' "$OUT" | grep '^\['$c'\] tier' | sed 's/.*cases=/cases=/')"
    [ $RC -ne 0 ] && printf '%s\n' "$OUT" | grep -E '^(# |VIOLATION|INCONCLUSIVE|\[harness)' | cut -c1-600 | head -12
  done
done
