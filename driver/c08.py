#!/usr/bin/env python3
"""Preparation of the C08 check: builds reftool from the vendored reference snapshot, lets both builds write their
normal forms into .cache/c08/{R,C}, and lets reftool judge the files written by the current build."""
import os
import shutil
import subprocess
import sys

HERE = os.path.dirname(os.path.abspath(__file__))
sys.path.insert(0, HERE)
import build as B  # noqa: E402

NSH = 16


def build_reftool():
    h = os.path.join(B.VERIF, "harness")
    srcs = [os.path.join(h, f) for f in ("tool_c08.cpp", "gen.cpp", "common.cpp")]
    return B.build("ref", lib_root=os.path.join(B.VERIF, "ref"), harness_sources=srcs, out_name="reftool", quiet=True)


def run_all(cmds, env=None):
    procs = [subprocess.Popen(c, env=env, stdout=subprocess.PIPE, stderr=subprocess.STDOUT, text=True) for c in cmds]
    bad = []
    for p, c in zip(procs, cmds):
        out, _ = p.communicate()
        if p.returncode != 0:
            bad.append("%s -> %s: %s" % (" ".join(c[:3]), p.returncode, out[-500:]))
    if bad:
        raise RuntimeError("c08 preparation failed:\n" + "\n".join(bad))


def prepare(seed, tier):
    reftool = build_reftool()
    nifmon = os.path.join(B.CACHE, "bin", "nifmon")
    base = os.path.join(B.CACHE, "c08")
    if os.path.isdir(base):
        shutil.rmtree(base)
    os.makedirs(os.path.join(base, "R"))
    os.makedirs(os.path.join(base, "C"))
    env = dict(os.environ)
    env["ASAN_OPTIONS"] = "abort_on_error=1:detect_leaks=0:max_allocation_size_mb=6144"
    env["UBSAN_OPTIONS"] = "abort_on_error=1:print_stacktrace=1"
    env["NIFLY_REPO"] = B.REPO
    env["NIFLY_VERIF"] = B.VERIF
    # both builds write their normal forms
    cmds = [[reftool, "gen", os.path.join(base, "R"), str(seed), tier, str(i), str(NSH)] for i in range(NSH)]
    cmds += [[nifmon, "C08GEN", "--seed", str(seed), "--tier", tier, "--shard", "%d/%d" % (i, NSH), "--out", os.path.join(base, "gen%02d.jsonl" % i)] for i in range(NSH)]
    run_all(cmds, env)
    # the reference build judges what the current build wrote
    cmds = [[reftool, "check", os.path.join(base, "C"), str(i), str(NSH), os.path.join(base, "verdicts.%d.txt" % i)] for i in range(NSH)]
    # ... and records its typed field trace for its own files as well
    cmds += [[reftool, "check", os.path.join(base, "R"), str(i), str(NSH), os.path.join(base, "selfcheck.%d.txt" % i)] for i in range(NSH)]
    run_all(cmds, env)
    nr = len([f for f in os.listdir(os.path.join(base, "R")) if f.endswith(".nif")])
    nc = len([f for f in os.listdir(os.path.join(base, "C")) if f.endswith(".nif")])
    if nr < 100 or nc < 100:
        raise RuntimeError("c08 preparation produced too few files (R=%d, C=%d)" % (nr, nc))
    prov = open(os.path.join(B.VERIF, "ref", "PROVENANCE")).read().splitlines()[1]
    return {"assumptions": ["reference build = " + prov, "reftool runs without sanitizers (it is the other program, not the monitored one)"],
            "coverage": {"programs": 2, "files_written_by_reference": nr, "files_written_by_current": nc}}


if __name__ == "__main__":
    if len(sys.argv) > 1 and sys.argv[1] == "build":
        try:
            print(build_reftool())
        except RuntimeError as e:
            print(e, file=sys.stderr)
            sys.exit(2)
