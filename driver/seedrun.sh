#!/bin/sh
# seedrun.sh <patch.diff> <Cxx> [<Cyy> ...]: applies a seeded change to /repo, runs the quick checks, reverts.
P="$1"; shift
cd /repo || exit 2
git diff --quiet || { echo "/repo has local changes"; exit 2; }
git apply "$P" || { echo "patch does not apply to /repo"; exit 2; }
for c in "$@"; do
  OUT=$(cd /verif && ./check "$c" 2>&1); RC=$?
  N=$(printf '%s\n' "$OUT" | grep -c '^VIOLATION')
  echo "== $c exit=$RC violations=$N"
  printf '%s\n' "$OUT" | grep '^# ' | head -4 | cut -c1-330
done
git -C /repo checkout -- .
