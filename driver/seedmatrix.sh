#!/bin/sh
# seedmatrix.sh [--all] [<id> ...]: for every stored seeded change (seeded/<id>/patch.diff, or the ids given) apply it to the
# repository under test ($NIFLY_REPO, default /repo), run the quick checks listed in meta.json "caught_by" (--all: every check),
# undo it, and print one line per (change, check).  The repository is left as it was found.
V=$(cd "$(dirname "$0")/.." && pwd)
R="${NIFLY_REPO:-/repo}"
ALL=0; [ "$1" = "--all" ] && { ALL=1; shift; }
IDS="$*"; [ -z "$IDS" ] && IDS=$(cd "$V/seeded" && ls -d C?? C??/r* 2>/dev/null)
CHECKS_ALL="C01 C02 C03 C04 C05 C06 C07 C08 C09 C10 C11 C12 C13 C14 C15 C16 C17 C18 C19 C20"
for id in $IDS; do
  P="$V/seeded/$id/patch.diff"
  [ -f "$P" ] || continue
  (cd "$R" && patch -p1 --dry-run -s < "$P" >/dev/null 2>&1) || { echo "$id: patch does not apply"; continue; }
  (cd "$R" && patch -p1 -s < "$P")
  if [ $ALL = 1 ]; then CH="$CHECKS_ALL"; else CH=$(python3 -c "import json;print(' '.join(json.load(open('$V/seeded/$id/meta.json'))['caught_by']))"); fi
  for c in $CH; do
    OUT=$(cd "$V" && ./check "$c" 2>&1); RC=$?
    SIG=$(printf '%s\n' "$OUT" | grep '^# ' | head -1 | cut -d'|' -f1 | cut -c3-120)
    echo "seed=$id check=$c exit=$RC $SIG"
  done
  (cd "$R" && patch -p1 -R -s < "$P")
done
