#!/usr/bin/env python3
"""Build the monitored nifly objects from /repo's *current working tree* plus the harness, through ccache.

ccache keys on preprocessed content + flags, so an edited source or header in /repo always yields a
fresh object while an unchanged tree re-uses cached ones (no mtime logic anywhere).
"""
import fcntl
import hashlib
import os
import shutil
import subprocess
import sys
import time
from concurrent.futures import ThreadPoolExecutor

VERIF = os.environ.get("NIFLY_VERIF", os.path.dirname(os.path.dirname(os.path.abspath(__file__))))
REPO = os.environ.get("NIFLY_REPO", "/repo")
CACHE = os.path.join(VERIF, ".cache")
GUARD = "NIFLY_VERIF"

SAN = ["-fsanitize=address,undefined", "-fno-sanitize=alignment,bool,enum", "-fno-sanitize-recover=all"]
COMMON = ["-std=c++17", "-g", "-fno-omit-frame-pointer", "-D_GLIBCXX_ASSERTIONS", "-D" + GUARD, "-w"]


def flavour_flags(flavour):
    if flavour == "mon":
        return COMMON + ["-O1"] + SAN
    if flavour == "plain":    # same sources, no sanitizer: the binary valgrind/memcheck runs (uninitialised reads are invisible to ASan)
        return COMMON + ["-O1"]
    if flavour == "ref":      # reference snapshot for C08: hooks on, no sanitizers (it is the *other* program)
        return ["-std=c++17", "-g1", "-O1", "-D" + GUARD, "-w"]
    raise ValueError(flavour)


def cxx():
    cc = shutil.which("ccache")
    return ([cc] if cc else []) + ["g++"]


def env():
    e = dict(os.environ)
    e["CCACHE_DIR"] = os.path.join(CACHE, "ccache")
    e["CCACHE_MAXSIZE"] = "6G"
    e["CCACHE_NOHASHDIR"] = "1"
    e["CCACHE_COMPILERCHECK"] = "content"
    return e


def compile_one(job):
    src, obj, flags, incs = job
    os.makedirs(os.path.dirname(obj), exist_ok=True)
    cmd = cxx() + flags + incs + ["-c", src, "-o", obj]
    t0 = time.time()
    p = subprocess.run(cmd, env=env(), stdout=subprocess.PIPE, stderr=subprocess.STDOUT, text=True)
    return src, p.returncode, p.stdout, time.time() - t0


def file_sha(path):
    h = hashlib.sha1()
    with open(path, "rb") as f:
        for chunk in iter(lambda: f.read(1 << 20), b""):
            h.update(chunk)
    return h.hexdigest()


def build(flavour="mon", lib_root=None, harness_sources=None, out_name="nifmon", quiet=False):
    """Returns path of the linked binary.  Raises RuntimeError on compile/link failure."""
    lib_root = lib_root or REPO
    os.makedirs(CACHE, exist_ok=True)
    lock = open(os.path.join(CACHE, "build.lock"), "w")
    fcntl.flock(lock, fcntl.LOCK_EX)
    try:
        flags = flavour_flags(flavour)
        incs = ["-I" + os.path.join(lib_root, "include"), "-I" + os.path.join(lib_root, "external"), "-I" + os.path.join(VERIF, "harness")]
        objdir = os.path.join(CACHE, "obj", flavour + "-" + out_name)
        jobs = []
        lib_srcs = sorted(f for f in os.listdir(os.path.join(lib_root, "src")) if f.endswith(".cpp"))
        for f in lib_srcs:
            fl = list(flags)
            if f == "Factory.cpp" and flavour == "mon":
                # -O1 -g under ASan+UBSan needs ~6 min / 5 GB for this one unit; -O0 -g1 is 4x cheaper
                fl = [x for x in fl if x not in ("-O1", "-g")] + ["-O0", "-g1"]
            jobs.append((os.path.join(lib_root, "src", f), os.path.join(objdir, "lib_" + f[:-4] + ".o"), fl, incs))
        if harness_sources is None:
            hdir = os.path.join(VERIF, "harness")
            harness_sources = [os.path.join(hdir, f) for f in sorted(os.listdir(hdir)) if f.endswith(".cpp") and not f.startswith("tool_")]
        for s in harness_sources:
            jobs.append((s, os.path.join(objdir, "h_" + os.path.basename(s)[:-4] + ".o"), flags, incs))
        t0 = time.time()
        with ThreadPoolExecutor(max_workers=int(os.environ.get("VERIF_JOBS", "16"))) as ex:
            results = list(ex.map(compile_one, jobs))
        failed = [(s, out) for s, rc, out, _ in results if rc != 0]
        if failed:
            msg = "\n".join("== %s\n%s" % (s, out[-4000:]) for s, out in failed)
            raise RuntimeError("compile failed:\n" + msg)
        objs = [j[1] for j in jobs]
        # Factory last so that COMDAT copies of inline Sync templates come from the -O1 objects
        objs.sort(key=lambda o: (os.path.basename(o) == "lib_Factory.o", o))
        sig = hashlib.sha1(("\n".join(file_sha(o) for o in objs) + " ".join(flags)).encode()).hexdigest()
        bindir = os.path.join(CACHE, "bin")
        os.makedirs(bindir, exist_ok=True)
        binp = os.path.join(bindir, out_name)
        sigp = binp + ".sig"
        if not (os.path.exists(binp) and os.path.exists(sigp) and open(sigp).read() == sig):
            link = ["g++"] + [f for f in flags if f.startswith("-fsanitize") or f.startswith("-fno-sanitize")] + objs + ["-o", binp + ".tmp"]
            p = subprocess.run(link, stdout=subprocess.PIPE, stderr=subprocess.STDOUT, text=True)
            if p.returncode != 0:
                raise RuntimeError("link failed:\n" + p.stdout[-4000:])
            os.replace(binp + ".tmp", binp)
            open(sigp, "w").write(sig)
        if not quiet:
            print("[build] %s/%s: %d units in %.1fs" % (flavour, out_name, len(jobs), time.time() - t0), flush=True)
        return binp
    finally:
        fcntl.flock(lock, fcntl.LOCK_UN)
        lock.close()


if __name__ == "__main__":
    try:
        print(build(sys.argv[1] if len(sys.argv) > 1 else "mon"))
    except RuntimeError as e:
        print(e, file=sys.stderr)
        sys.exit(2)
