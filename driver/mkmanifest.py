#!/usr/bin/env python3
"""Regenerates /verif/MANIFEST.json from the table below (single source of truth for the interface)."""
import json
import os
import subprocess

VERIF = os.path.dirname(os.path.dirname(os.path.abspath(__file__)))

TRUSTED = ("Trusted base: g++ 12 ASan/UBSan runtimes and libstdc++ assertions, the NIFLY_VERIF hooks (information only), "
           "the harness oracles in /verif/harness, x86-64/Linux only. Verdicts are 'held on the executions observed', never proofs.")

# id -> (category, technique, text, design_ref)
CHECKS = {
    "C01": ("exploration", "runtime monitor: byte-level fixed-point oracle over real, float-mutated, API-built and hook-synthesised files (every block type x version), under ASan/UBSan",
            "For each accepted input the raw-saved normal form must reload and re-save byte-identically (diffed block by block through an independent header parser) and the default "
            "save must converge within two rounds. Inputs include a populated instance of each of the 304 registered block types in each of 14 versions, synthesised by answering the "
            "library's own reader. Held-on-observed-executions is the strongest claim execution can give for an all-inputs property; breadth comes from type x version enumeration.", "3/C01"),
    "C02": ("exploration", "runtime monitor: hook-traced canonical dumps of three consecutive saves of one object + query battery before/after, under ASan/UBSan",
            "The same NifFile object is saved three times per option set with the Sync/ref/string/block hooks installed; the canonical dumps of the three outputs (references as target "
            "identity, string indices as text) must be equal and ~60 read-only queries must answer identically after each save and (logical part) before the first. Inputs: real, "
            "float-mutated, API-built and one synthesised file per block type x version.", "3/C02"),
    "C03": ("exploration", "runtime monitor: independent header re-labeller + independent parser comparing unknown-block payloads, order and string-table prefix of the saved output",
            "Type-table entries are renamed outside the library (exhaustive subsets for small tables, singletons/full/random otherwise); the output of raw and default saves must keep "
            "every block at its index with its type name, declared size and payload bytes, and every input string index must still denote the same string; a fifth of the cases is also written to a stream that cannot seek.", "3/C03"),
    "C04": ("exploration", "runtime monitor: graph snapshots (object identity, hook-located reference slots, canonical payloads, child lists) before/after sort, prune, shape-order and default save, compared by a reference model of 'permute and prune only'",
            "Each operation is applied to real, synthesised (every block type x version) and API-built graphs; survivors, pruned blocks, reference targets, child sets and payloads are "
            "compared between the snapshots, sorting twice must be the identity, and the default save must equal explicit Optimize+sort+raw save up to string numbering.", "3/C04"),
    "C05": ("exploration", "hook-based runtime monitor: set of NiRef/NiStringRef objects passing through Sync vs the owner's enumerators, over typed-synthesised instances of every block type x version",
            "All 304 registered block types x 14 versions are instantiated with populated fields by answering the reader through the typed read hook; every reference and "
            "string index that is actually serialised (both directions) must be reported by GetChildRefs/GetPtrs/GetStringRefs, and GetChildIndices must agree with GetChildRefs. "
            "Exhaustive over the registered types and versions, sampled over field values.", "3/C05"),
    "C06": ("exploration", "runtime monitor: executable reference model of an indexed object graph stepped in lock-step with NiHeader/NifFile edits (exhaustive short sequences on small graphs + random long ones), plus save/independent-parse/reload",
            "After every single edit the library's block order, enumerated reference slots and header accessors are compared with the model derived from the verified pre-state; all "
            "op sequences up to length 3 (4) over a state-dependent alphabet are enumerated on five small graphs in three versions, random sequences run on real, synthesised and "
            "API-built models; sequences end with raw save, independent header check, reload and reference comparison.", "3/C06"),
    "C07": ("exploration", "runtime monitor: independent header/footer walker + hook trace of the writing save + byte counts consumed by the library's reader, over files written after round trips and random API edits",
            "Every output of every save in the workload is parsed by a reader that shares no code with the library and trusts only the header tables; declared sizes are compared with "
            "what the writer emitted between Block hook events and with what the reader consumes on reload; string-index fields are located through the StringRef hook. "
            "The workload writes files after plain round trips, second generation, API construction and random edit sequences in all versions, a third of them also into streams that already hold data.", "3/C07"),
    "C08": ("exploration", "differential runtime monitoring of two builds (vendored reference snapshot vs working tree): cross-loading of each other's normal forms with per-block byte consumption, byte-identical re-encoding and equality of hook-recorded typed field traces",
            "Both builds synthesise populated instances of all 304 block types x 14 versions through their own readers and write normal forms; each build loads the other's files, must "
            "consume exactly the declared bytes per block, re-encode them byte-identically, and the per-block sequence of (field kind, width, member offset / reference / string) hook "
            "events of the re-encoding must be the same in both builds, which exposes field swaps, width and version-gate changes made consistently on both sides.", "3/C08"),
    "C09": ("exploration", "runtime monitor: executable reference model of vertex deletion (survivor restriction, triangle filtering/re-indexing, skin-weight and locked-normal remapping) + range/counter/partition/segment invariants, bounded-exhaustive on small meshes and random beyond",
            "DeleteVertsForShape is applied to every geometry kind (triangle lists, strips, BSTriShape family, skinned/unskinned, segmented) with structured and random index sets and "
            "repeated deletions; accessors and raw skin/partition/segment state are compared with the model after every deletion and geometry is compared across save+reload.", "3/C09"),
    "C10": ("exploration", "runtime monitor: structural invariant checker over NiSkinPartition/BSDismemberSkinInstance state after every partition operation and after save+reload",
            "Skinned shapes with 1..120 bones and 1..8 influences are built in OB/FO3/SK/SSE, partitions are rebuilt and triangles re-assigned with in-range, unassigned and "
            "out-of-range labels, emptied, deleted and reset; after each step the coverage / vertex-map / mapped-triangle / bone-limit / weight / alignment invariants are evaluated "
            "on the live blocks.", "3/C10"),
    "C11": ("exploration", "runtime monitor under AddressSanitizer: byte equality of copies + frozen-record comparison (query battery and canonical block dump) of the untouched side across edit sequences and both destruction orders",
            "Copy constructor, assignment and copy-of-copy are compared byte for byte with the source; heavy edit sequences run on one side while the other side's full query record and "
            "block dump must stay identical; source-first and copy-first destruction are followed by queries and saves so that shared or dangling geometry pointers surface as changed "
            "answers or heap-use-after-free.", "3/C11"),
    "C12": ("exploration", "runtime monitor: per-shape differential oracle between the model before and after OptimizeFor (in memory, after save+reload in the target version, and after converting back) plus the C10 partition invariants",
            "Real LE/SE samples and API-built SK/SSE models (skinned/unskinned, colours, partitions, name clashes) are converted under option combinations; positions must be "
            "bit-exact, triangle sets, UVs (half precision), colours (1/255), bone lists, normalised top-4 weights, parent nodes and shader kinds preserved, sibling names distinct, the "
            "result must reload in the target version with valid partitions and convert back to equivalent geometry.", "3/C12"),
    "C13": ("exploration", "runtime monitor: API round-trip oracle (setter/creator -> getter, in memory and after save+reload) with storage-quantisation models, over versions x boundary vertex/triangle counts, under ASan/UBSan",
            "Meshes at the sizes {1,2,3,...,65535,65536,70000} are created in six versions; every getter is compared with the given data under the exact storage model (half-float "
            "rounding, byte quantisation) before and after raw/default save+reload, each setter is followed by all getters and by an all-arrays length check.", "3/C13"),
    "C14": ("exploration", "runtime monitor: sub-graph isomorphism between source and clone over hook-located reference slots and canonical payloads, accessor record equality, source byte equality, destination save+reload",
            "Every shape of real, API-built and synthesised models is cloned into the same, a fresh and another loaded model (1-3 times); the owned sub-graph of the clone must be "
            "isomorphic to the source's with equal canonical payloads and entirely inside the destination, the accessor record, bone names and the source's raw-save bytes are compared, "
            "and the destination must default-save and reload with the clone unchanged.", "3/C14"),
    "C15": ("fault_enumeration", "fault enumeration under ASan/UBSan/libstdc++ assertions: every reference-field stratum x corruption kind (hook-located offsets, bytes patched outside the library), fork-isolated with CPU-time hang detection",
            "Reference fields are located by the BlockRef hook of the traced raw save and patched directly in the bytes; strata (block type, target class) x 8 corruption kinds plus "
            "2-3-fold combinations are enumerated for real, synthesised (every block type) and API-built files; each fault runs load, query battery, copy, both saves and reload in a "
            "child process; aborts, signals, exceptions and CPU-limit hangs are violations attributed to the fault and phase.", "3/C15"),
    "C16": ("fault_enumeration", "fault enumeration under ASan/UBSan/libstdc++ assertions: every/selected truncation offsets of real, synthesised and API-built files, fork-isolated with CPU-time hang detection",
            "The fault model (file ends after k bytes) is enumerated over all offsets of the small samples and over block/field/table boundaries plus a stride of the large ones; each "
            "prefix goes through Load, the query battery, copy, both saves, reload and destruction in a child process whose death (sanitizer abort, signal, assertion, CPU limit) is "
            "attributed to the journalled fault and phase. Prefixes of generated Starfield .mesh files go through LoadExternalShapeData into fresh and already filled mesh slots the same way.", "3/C16"),
    "C17": ("exploration", "runtime monitor: label round-trip oracle (set -> get under the documented renumbering) plus range-partition invariants on the stored segment table, bounded-exhaustive for small meshes and random beyond, incl. vertex deletion and reload",
            "Every label list over {-1,0,1,2} for up to 4 (5) triangles in three segment structures, random segmentations with permuted ids/sub-segments/unassigned labels, and "
            "partition assignments in OB/FO3/SK/SSE are set through the API and read back after set, set(get()), save+reload and vertex deletion; labels must be preserved under the "
            "renumbering and the stored ranges must partition the triangles.", "3/C17"),
    "C18": ("exploration", "bounded-exhaustive differential testing against naive reference models under ASan/UBSan/libstdc++ assertions",
            "Every sorted index subset of vectors up to length 9 with two out-of-range positions (15 thorough) for all index types used by callers, all small triangle lists x collapse maps, all strips over a "
            "4-symbol alphabet up to length 8 (11), plus random vectors at the 16-bit limits are pushed through the real templates and compared with naive models; out-of-container "
            "accesses abort. Small-scope exhaustive + boundary sizes is the right level for pure index arithmetic.", "3/C18"),
    "C19": ("exploration", "bounded-exhaustive + random differential testing of the real clean-up (through every texture slot kind of API-built models) against a regex-free reference model and statement-derived postconditions",
            "All token sequences up to length 4 (5) over separators, whitespace, dots, letters, ':' and the words textures/data, curated real-world paths and random byte strings up to "
            "4.5 KB are injected into texture-set, effect-shader and NiSourceTexture slots of OB/FO3/SK/SSE/FO4/FO76 models and read back after TrimTexturePaths (twice) and after "
            "save+Load with and without the terrain option.", "3/C19"),
    "C20": ("exploration", "randomised runtime checking of algebraic identities with explicit magnitude-scaled tolerances, under ASan/UBSan",
            "Transforms, rotation vectors, matrices and point sets are drawn from the well-conditioned ranges the statement names (plus degenerate point sets) and the library's results "
            "are checked against the algebraic laws; shape bounds are checked on API-built shapes of every geometry class.", "3/C20"),
}

NOT_YET = {}


def main():
    src_commits = []
    try:
        out = subprocess.run(["git", "-C", "/repo", "log", "--format=%H %s"], stdout=subprocess.PIPE, text=True).stdout
        for line in out.splitlines():
            h, _, s = line.partition(" ")
            if s.startswith("verif hooks"):
                src_commits.append(h)
    except Exception:
        pass
    props = [json.loads(l)["id"] for l in open(os.path.join(VERIF, "properties.jsonl"))]
    checks = []
    for pid in props:
        if pid not in CHECKS:
            continue
        cat, tech, text, ref = CHECKS[pid]
        checks.append({
            "property_id": pid,
            "quick_cmd": "./check %s --tier quick" % pid,
            "thorough_cmd": "./check %s --tier thorough" % pid,
            "evidence_file": "/verif/evidence/%s.json" % pid,
            "replay_cmd_template": "./check %s --replay {path}" % pid,
            "engine": "nifmon",
            "level_claimed": {"category": cat, "text": text, "design_ref": "DESIGN.md section " + ref},
            "level_note": TRUSTED,
            "technique": tech,
        })
    na = [{"property_id": p, "reason": NOT_YET.get(p, "monitor not registered yet (work in progress); no other technique is substituted")}
          for p in props if p not in CHECKS]
    m = {
        "version": 1,
        "setup_cmd": "./setup.sh",
        "hooks": {
            "guard": "NIFLY_VERIF",
            "enable": "driver/build.py compiles /repo/src/*.cpp with -DNIFLY_VERIF (plus ASan/UBSan/_GLIBCXX_ASSERTIONS) through ccache into /verif/.cache",
            "baseline_off_cmd": "./baseline_off.sh",
            "source_commits": src_commits,
            "add_only": True,
        },
        "engines": [{"name": "nifmon", "path": "/verif/harness", "serves_properties": sorted(CHECKS),
                     "kind_free_text": "runtime monitors (hook-fed oracles, reference models, fault enumeration) over the real library built with ASan+UBSan"}],
        "checks": checks,
        "notes": "Runtime monitoring and sanitizers only. ./check <id> rebuilds from /repo's working tree on every call (ccache), runs 16 fork-isolated shards, "
                 "triages against known_findings.json and rewrites evidence/<id>.json. Exit 0 held, 1 violation, 2 harness failure/inconclusive.",
        "not_applicable": na,
    }
    json.dump(m, open(os.path.join(VERIF, "MANIFEST.json"), "w"), indent=1)
    print("MANIFEST.json: %d checks, %d not claimed" % (len(checks), len(na)))


if __name__ == "__main__":
    main()
