#!/usr/bin/env python3
"""Supplementary valgrind/memcheck stage of ./check (thorough tier): a spread sample of the monitor's cases is run
again, one process per case, in a build of the same sources *without* sanitizers under memcheck.  ASan/UBSan do not see
reads of uninitialised memory (a count left unset by a short read and then used, a member the constructor forgot);
memcheck does.  Results come back as violation records with signatures <prop>:memcheck:<kind>:<first nifly:: frame>.
"""
import json
import os
import re
import subprocess
import time
from concurrent.futures import ThreadPoolExecutor

import build as B

# cases per property (thorough tier); 0 = stage off.  C08 is a two-program check (its own driver), not sampled here.
CASES = {"C01": 64, "C02": 32, "C03": 24, "C04": 32, "C05": 24, "C06": 24, "C07": 32, "C08": 0, "C09": 24, "C10": 24, "C11": 16, "C12": 24,
         "C13": 24, "C14": 24, "C15": 48, "C16": 64, "C17": 24, "C18": 8, "C19": 8, "C20": 8}
PER_CASE_TIMEOUT = 1200

KIND_RE = re.compile(r"^==\d+== ((?:Conditional jump|Use of uninitialised|Invalid (?:read|write|free)|Syscall param|Mismatched free|Source and destination overlap|Argument '[^']*' of function)[^\n]*)", re.M)
FRAME_RE = re.compile(r"(?:at|by) 0x[0-9A-F]+: (nifly::[^\s(]+)")
ANY_RE = re.compile(r"(?:at|by) 0x[0-9A-F]+: ([^\s(]+)")


def signature(log):
    m = KIND_RE.search(log)
    kind = re.sub(r"\d+", "N", m.group(1)).strip()[:70] if m else "error"
    f = FRAME_RE.search(log)
    if f:
        frame = f.group(1)
    else:
        a = [x for x in ANY_RE.findall(log) if not x.startswith("_")]
        frame = a[0] if a else "?"
    return "memcheck:%s:%s" % (kind, frame)


def pick(ncases, k, seed):
    if ncases <= 0 or k <= 0:
        return []
    k = min(k, ncases)
    off = (seed * 7919) % max(1, ncases // k)
    return sorted({min(ncases - 1, (j * ncases) // k + off) for j in range(k)})


def stage(prop, seed, tier, ncases, workdir, want=None, only=None):
    """returns (violation records [(sig, rec)], stats dict, notes list)"""
    k = CASES.get(prop, 0) if want is None else want
    k = int(os.environ.get("VERIF_MEMCHECK_CASES", k))
    stats, viols, notes = {}, [], []
    if only is None and (k <= 0 or not ncases):
        return viols, stats, notes
    binp = B.build("plain", out_name="nifmon-mc", quiet=True)
    os.makedirs(workdir, exist_ok=True)
    env = dict(os.environ)
    env["NIFLY_REPO"] = B.REPO
    env["NIFLY_VERIF"] = B.VERIF
    cases = list(only) if only is not None else pick(ncases, k, seed)

    def one(c):
        out = os.path.join(workdir, "mc%d.jsonl" % c)
        log = os.path.join(workdir, "mc%d.vg" % c)
        for p in (out, log):
            if os.path.exists(p):
                os.remove(p)
        cmd = ["valgrind", "-q", "--error-exitcode=77", "--leak-check=no", "--num-callers=16", "--log-file=" + log,
               binp, prop, "--seed", str(seed), "--tier", tier, "--case", str(c), "--out", out]
        t0 = time.time()
        try:
            p = subprocess.run(cmd, env=env, stdout=subprocess.DEVNULL, stderr=subprocess.PIPE, text=True, timeout=PER_CASE_TIMEOUT)
            rc, err = p.returncode, p.stderr
        except subprocess.TimeoutExpired:
            return c, "timeout", "", [], time.time() - t0
        recs = []
        if os.path.exists(out):
            for line in open(out, errors="replace"):
                try:
                    recs.append(json.loads(line))
                except json.JSONDecodeError:
                    pass
        vg = open(log, errors="replace").read() if os.path.exists(log) else ""
        return c, rc, vg + ("\n" + err[-2000:] if rc not in (0, 1, 77) else ""), recs, time.time() - t0

    with ThreadPoolExecutor(max_workers=int(os.environ.get("VERIF_SHARDS", "16"))) as ex:
        results = list(ex.map(one, cases))
    for c, rc, log, recs, dt in results:
        if rc == "timeout":
            stats["memcheck_cases_skipped_too_slow"] = stats.get("memcheck_cases_skipped_too_slow", 0) + 1
            continue
        stats["memcheck_cases_run"] = stats.get("memcheck_cases_run", 0) + 1
        for r in recs:
            if r.get("t") == "stats":
                stats["memcheck_evaluations"] = stats.get("memcheck_evaluations", 0) + r.get("evals", 0)
            if r.get("t") == "viol":
                # the same oracle in the unsanitised build: reported under its usual signature
                viols.append(("%s:%s:%s" % (prop, r.get("oracle"), r.get("site")), dict(r, case=c)))
        desc = next((r.get("desc") for r in recs if r.get("desc")), "")
        if rc == 77 or "== Invalid" in log or "uninitialised" in log:
            viols.append(("%s:%s" % (prop, signature(log)), {"case": c, "desc": desc, "phase": "memcheck", "log": log[:8000], "detail": None}))
        elif rc not in (0, 1):
            viols.append(("%s:memcheck-run:exit%s" % (prop, rc), {"case": c, "desc": desc, "phase": "memcheck", "log": log[-4000:], "detail": None}))
    notes.append("supplementary stage: %d of %d cases re-run one per process in an unsanitised -O1 build of the same sources under valgrind 3.19 memcheck "
                 "(uninitialised-value uses, invalid accesses and frees are violations; leak checking off)" % (stats.get("memcheck_cases_run", 0), ncases))
    return viols, stats, notes
